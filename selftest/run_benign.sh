#!/bin/bash
# Must-pass corpus: behaviour-preserving edits of functions under contract (renamed locals, extracted temporaries,
# an added log line, a loop written with an index, changed message texts). Every listed check must exit 0 without a
# VIOLATION line. Scratch worktree of /repo under /tmp, removed afterwards. Usage: selftest/run_benign.sh [pattern]
set -u
export GOFLAGS=-mod=mod GOPROXY=off GOSUMDB=off GOTOOLCHAIN=local
W=$(mktemp -d /tmp/gocv-benign.XXXXXX)
trap 'git -C /repo worktree remove --force "$W/wt" >/dev/null 2>&1; rm -rf "$W"' EXIT
git -C /repo worktree add --detach "$W/wt" HEAD >/dev/null 2>&1 || { echo "cannot create worktree"; exit 2; }
fail=0
for p in /verif/selftest/benign/*${1:-}*.patch; do
  props=$(grep -m1 '^# properties:' "$p" | awk '{print $3}' | tr ',' ' ')
  git -C "$W/wt" checkout -q -- . ; git -C "$W/wt" clean -fdq
  if ! git -C "$W/wt" apply "$p" 2>/dev/null; then echo "SKIP $(basename $p): patch does not apply"; fail=1; continue; fi
  for prop in $props; do
    out=$(GOCV_REPO="$W/wt" GOCV_OUT="$W/out" /verif/bin/gocv check "$prop" --tier quick 2>&1); rc=$?
    if [ $rc -eq 0 ] && ! echo "$out" | grep -q "^VIOLATION"; then
      echo "ok    $(basename $p) -> $prop silent"
    else
      echo "ALARM $(basename $p) -> $prop rc=$rc"; echo "$out" | grep '^VIOLATION' | sed 's/replay=[^ ]*//' | cut -c1-240 | head -5; fail=1
    fi
  done
done
exit $fail
