#!/bin/bash
# mk.sh <name> <property> <file relative to /repo> <old text> <new text>
# makes selftest/mutants/<name>.patch: replaces the first occurrence of <old> by <new> in the file (which must be clean
# and committed), stores the diff (contract files excluded) and restores the file.
set -e
name=$1; prop=$2; file=$3; old=$4; new=$5
cd /repo
git diff --quiet -- "$file" || { echo "mk: $file has uncommitted changes"; exit 2; }
python3 - "$file" "$old" "$new" <<'PY'
import sys
f,old,new=sys.argv[1:4]
s=open(f).read()
if old not in s: sys.exit("mk: old text not found in "+f)
open(f,'w').write(s.replace(old,new,1))
PY
{ echo "# property: $prop"; echo "# expect: "; git diff -- "$file"; } > /verif/selftest/mutants/$name.patch
git checkout -- "$file"
echo "made $name"
