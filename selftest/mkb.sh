#!/bin/bash
# mkb.sh <name> <properties, comma separated> <file> <old> <new> [<file2> <old2> <new2> ...]
# makes selftest/benign/<name>.patch: a behaviour-preserving edit; every listed check must stay silent on it.
set -e
name=$1; props=$2; shift 2
cd /repo
files=()
while [ $# -ge 3 ]; do
  file=$1; old=$2; new=$3; shift 3
  python3 - "$file" "$old" "$new" <<'PY'
import sys
f,old,new=sys.argv[1:4]
s=open(f).read()
if old not in s: sys.exit("mkb: old text not found in "+f)
open(f,'w').write(s.replace(old,new,1))
PY
  files+=("$file")
done
go build ./... || { git checkout -- "${files[@]}"; echo "mkb: does not build"; exit 1; }
{ echo "# properties: $props"; git diff -- "${files[@]}"; } > /verif/selftest/benign/$name.patch
git checkout -- "${files[@]}"
echo "made benign/$name"
