#!/bin/bash
# Must-fail corpus: each mutant is a patch that breaks a property while compiling; the check for
# that property must exit 1 on the patched tree. Runs against a scratch git worktree of /repo
# (outside /repo and /verif), removed afterwards. Usage: selftest/run.sh [pattern]
set -u
export GOFLAGS=-mod=mod GOPROXY=off GOSUMDB=off GOTOOLCHAIN=local
W=$(mktemp -d /tmp/gocv-selftest.XXXXXX)
trap 'git -C /repo worktree remove --force "$W/wt" >/dev/null 2>&1; rm -rf "$W"' EXIT
git -C /repo worktree add --detach "$W/wt" HEAD >/dev/null 2>&1 || { echo "cannot create worktree"; exit 2; }
fail=0
for p in /verif/selftest/mutants/*${1:-}*.patch; do
  prop=$(grep -m1 '^# property:' "$p" | awk '{print $3}')
  expect=$(grep -m1 '^# expect:' "$p" | cut -d' ' -f3-)
  git -C "$W/wt" checkout -q -- . ; git -C "$W/wt" clean -fdq
  if ! git -C "$W/wt" apply "$p" 2>/dev/null; then echo "SKIP $(basename $p): patch does not apply"; fail=1; continue; fi
  out=$(GOCV_TIMEOUT=8 GOCV_REPO="$W/wt" GOCV_OUT="$W/out" /verif/bin/gocv check "$prop" --tier quick 2>&1); rc=$?
  if [ $rc -eq 1 ] && echo "$out" | grep -q "^VIOLATION property=$prop" && { [ -z "$expect" ] || echo "$out" | grep -q "$expect"; }; then
    echo "ok   $(basename $p) -> $prop: $(echo "$out" | grep -c '^VIOLATION') violation line(s); first: $(echo "$out" | grep -m1 '^VIOLATION' | sed 's/.*obligation=//' | cut -c1-140)"
  else
    echo "MISS $(basename $p) -> $prop rc=$rc"; echo "$out" | tail -3; fail=1
  fi
done
exit $fail
