#!/bin/bash
# Must-fail corpus: each mutant is a patch that breaks a property while compiling; the check for
# that property must exit 1 on the patched tree. Runs against scratch git worktrees of /repo
# (outside /repo and /verif), removed afterwards. Usage: selftest/run.sh [pattern]   (JOBS=n runs n mutants at a time)
set -u
export GOFLAGS=-mod=mod GOPROXY=off GOSUMDB=off GOTOOLCHAIN=local
JOBS=${JOBS:-3}
W=$(mktemp -d /tmp/gocv-selftest.XXXXXX)
cleanup() {
  for d in "$W"/wt*; do [ -d "$d" ] && git -C /repo worktree remove --force "$d" >/dev/null 2>&1; done
  rm -rf "$W"
}
trap cleanup EXIT
one() {
  p=$1; slot=$2; W=$3
  wt="$W/wt$slot"
  prop=$(grep -m1 '^# property:' "$p" | awk '{print $3}')
  expect=$(grep -m1 '^# expect:' "$p" | cut -d' ' -f3-)
  git -C "$wt" checkout -q -- . ; git -C "$wt" clean -fdq
  if ! git -C "$wt" apply "$p" 2>/dev/null; then echo "SKIP $(basename $p): patch does not apply"; return 1; fi
  out=$(GOCV_TIMEOUT=${GOCV_TIMEOUT:-12} GOCV_REPO="$wt" GOCV_OUT="$W/out$slot" /verif/bin/gocv check "$prop" --tier quick 2>&1); rc=$?
  if [ $rc -eq 1 ] && echo "$out" | grep -q "^VIOLATION property=$prop" && { [ -z "$expect" ] || echo "$out" | grep -q "$expect"; }; then
    first=$(echo "$out" | grep -m1 '^VIOLATION')
    replayed=""; echo "$out" | grep '^VIOLATION' | grep -qv 'no-failing-input-found' && replayed=" [replayed on the real code]"
    echo "ok   $(basename $p) -> $prop: $(echo "$out" | grep -c '^VIOLATION') violation line(s)$replayed; first: $(echo "$first" | sed 's/.*obligation=//' | cut -c1-140)"
    return 0
  fi
  echo "MISS $(basename $p) -> $prop rc=$rc"; echo "$out" | tail -3
  return 1
}
export -f one
for s in $(seq 1 $JOBS); do
  git -C /repo worktree add --detach "$W/wt$s" HEAD >/dev/null 2>&1 || { echo "cannot create worktree"; exit 2; }
done
# each slot handles every JOBS-th mutant
ls /verif/selftest/mutants/*${1:-}*.patch > "$W/list"
fail=0
pids=()
for s in $(seq 1 $JOBS); do
  ( bad=0; i=0; while read -r p; do i=$((i+1)); if [ $(( (i-1) % JOBS + 1 )) -eq $s ]; then one "$p" "$s" "$W" || bad=1; fi; done < "$W/list"; exit $bad ) &
  pids+=($!)
done
for pid in "${pids[@]}"; do wait $pid || fail=1; done
exit $fail
