#!/usr/bin/env python3
"""Regenerates MANIFEST.json from the table below (kept next to the engine so the manifest
stays consistent with what is claimed)."""
import json, subprocess

CLAIMS = {}   # filled in below: id -> dict(text, note, technique, design_ref)
NOT_APPLICABLE = {}

def claim(pid, text, note, technique="contract-based deductive verification: WP/symbolic execution over go/ssa of the real functions, obligations discharged by z3/cvc5", ref="DESIGN.md §5"):
    CLAIMS[pid] = dict(text=text, note=note, technique=technique, ref=ref)

exec(open('/verif/claims.py').read())

props = [json.loads(l)['id'] for l in open('/verif/properties.jsonl')]
hooks = subprocess.run(['git','-C','/repo','log','--format=%H %s'],capture_output=True,text=True).stdout.splitlines()
hook_commits = [l.split()[0] for l in hooks if l.split(' ',1)[1].startswith('verif:')]
checks = []
for pid in props:
    if pid in CLAIMS:
        c = CLAIMS[pid]
        checks.append({
            "property_id": pid,
            "quick_cmd": f"./bin/gocv check {pid} --tier quick",
            "thorough_cmd": f"./bin/gocv check {pid} --tier thorough",
            "evidence_file": f"/verif/evidence/{pid}.json",
            "replay_cmd_template": "./bin/gocv replay {path}",
            "engine": "gocv",
            "level_claimed": {"category": "proof", "text": c['text'], "design_ref": c['ref']},
            "level_note": c['note'],
            "technique": c['technique'],
        })
na = [{"property_id": pid, "reason": NOT_APPLICABLE.get(pid, "no check is registered for this property yet (machinery under construction); nothing is claimed")} for pid in props if pid not in CLAIMS]
m = {
 "version": 1,
 "setup_cmd": "cd /verif/engine && GOFLAGS=-mod=vendor GOPROXY=off GOSUMDB=off GOTOOLCHAIN=local go build -o /verif/bin/gocv .",
 "hooks": {
   "guard": "verif",
   "enable": "go/packages loads /repo with -tags verif; the hook files are comment-only zz_contracts_verif.go files (//go:build verif) holding the //@ contracts",
   "baseline_off_cmd": json.load(open('/root/.vp/BASELINE.json'))['cmd'],
   "source_commits": hook_commits,
   "add_only": True,
 },
 "engines": [{"name": "gocv", "path": "/verif/engine", "serves_properties": sorted(CLAIMS), "kind_free_text": "verification-condition generator over go/ssa of /repo's real function bodies (contracts as //@ comments in build-tagged files), SMT back ends z3-new / z3 / cvc5"}],
 "checks": checks,
 "not_applicable": na,
 "notes": "Contract-based deductive verification only. See DESIGN.md; known findings in known_findings.json. Quick tier: all obligations, 30 s per obligation. Thorough tier: 120 s per obligation, and the replay tests of the repaired defects (replay/index.json) are run against the real code with go test -overlay, so a repaired defect that returns is reported with its failing input.",
}
json.dump(m, open('/verif/MANIFEST.json','w'), indent=1)
print("claimed:", sorted(CLAIMS), "not applicable:", [x['property_id'] for x in na])
