package main

// `gocv check <property>`: collect the contracts and lemmas tagged with the property,
// generate and discharge their obligations, apply known findings, write evidence.

import (
	"encoding/json"
	"flag"
	"fmt"
	"os"
	"os/exec"
	"path/filepath"
	"regexp"
	"runtime"
	"sort"
	"strconv"
	"strings"
	"time"
)

type KnownFinding struct {
	Property   string `json:"property"`
	Status     string `json:"status"` // known | fixed
	Obligation string `json:"obligation"` // exact obligation name
	Region     string `json:"region,omitempty"` // contract-language predicate over the function's inputs delimiting the finding
	What       string `json:"what"`
	Commit     string `json:"commit,omitempty"`
	Witness    string `json:"witness,omitempty"`
}

func verifDir() string {
	if d := os.Getenv("GOCV_VERIF"); d != "" {
		return d
	}
	return "/verif"
}

// outDir: where evidence and replay files go (GOCV_OUT redirects them, e.g. for the mutant self-test;
// the known-findings file is always read from the verification directory).
func outDir() string {
	if d := os.Getenv("GOCV_OUT"); d != "" {
		return d
	}
	return verifDir()
}

func loadKnownFindings() ([]KnownFinding, error) {
	b, err := os.ReadFile(filepath.Join(verifDir(), "known_findings.json"))
	if err != nil {
		if os.IsNotExist(err) {
			return nil, nil
		}
		return nil, err
	}
	var kf []KnownFinding
	if err := json.Unmarshal(b, &kf); err != nil {
		return nil, fmt.Errorf("known_findings.json: %v", err)
	}
	return kf, nil
}

type unit struct {
	kind string // func | lemma | extra
	fc   *FuncContract
	lm   *Lemma
	rep  *FuncReport
}

// extraChecks lets a property add obligations that are not function contracts (effect checker etc.).
var extraChecks = map[string]func(p *Program, tier string) []*FuncReport{}

func init() {
	custom := func(pkg string) bool { return true }
	vestSig := func(pkg string) bool {
		return strings.Contains(pkg, "/x/cfevesting") || strings.Contains(pkg, "/x/cfesignature")
	}
	extraChecks["C01"] = func(p *Program, tier string) []*FuncReport {
		// vesting and signature entry points never mint or burn; every call respects the declared effect sets
		return []*FuncReport{runEffectCheck(p, "supply", map[string]bool{EffMint: true, EffBurn: true}, vestSig)}
	}
	extraChecks["C17"] = func(p *Program, tier string) []*FuncReport {
		// lineage records are written only by the operations the property names (pool send, split, the two moves), by genesis
		// import and by the v1.2.0 upgrade: every other entry point is proved trace-write free, call by call
		allowed := []string{"msgServer.SendToVestingAccount", "msgServer.SplitVesting", "msgServer.MoveAvailableVesting", "msgServer.MoveAvailableVestingByDenoms",
			"cfevesting.InitGenesis", "AppModule.InitGenesis", "v120.CreateUpgradeHandler", "v120.UpdateVestingAccountTraces", "msgServer.splitVestingCoins"}
		return []*FuncReport{runEffectCheck(p, "lineage-writers", map[string]bool{"trace.write": true}, custom, func(key string) bool {
			for _, a := range allowed {
				if strings.HasSuffix(key, a) {
					return true
				}
			}
			return false
		})}
	}
	extraChecks["C13"] = func(p *Program, tier string) []*FuncReport { return []*FuncReport{runParamsWriterCheck(p)} }
	for _, id := range []string{"C12", "C16", "C17"} {
		id := id
		prev := extraChecks[id]
		extraChecks[id] = func(p *Program, tier string) []*FuncReport {
			var out []*FuncReport
			if prev != nil {
				out = prev(p, tier)
			}
			return append(out, runArgOrderCheck(p, id))
		}
	}
	extraChecks["C11"] = func(p *Program, tier string) []*FuncReport {
		return []*FuncReport{runEffectCheck(p, "determinism", map[string]bool{EffTime: true, EffZone: true, EffRand: true, EffMapRange: true, EffGo: true, EffGlobalW: true}, custom)}
	}
}

// propertyNotes: per property, the level note / assumptions repeated in the evidence.
var propertyAssumptions = map[string][]string{}

func hasProp(props []string, id string) bool {
	for _, p := range props {
		if p == id {
			return true
		}
	}
	return false
}

func cmdCheck(args []string) int {
	fs := flag.NewFlagSet("check", flag.ExitOnError)
	tierF := fs.String("tier", "quick", "quick | thorough")
	fs.Parse(reorderFlags(args))
	if fs.NArg() != 1 {
		fmt.Println("usage: gocv check <property-id> [--tier quick|thorough]")
		return 2
	}
	id := fs.Arg(0)
	tier := *tierF
	if t := os.Getenv("VERIF_TIER"); t == "quick" || t == "thorough" {
		tier = t
	}
	seed := 0
	if s := os.Getenv("VERIF_SEED"); s != "" {
		seed, _ = strconv.Atoi(s)
	}
	solverSeed = seed
	t0 := time.Now()
	p, err := LoadProgram(repoDir())
	if err != nil {
		fmt.Println("gocv: cannot load /repo:", err)
		writeFailureEvidence(id, tier, seed, "load error: "+err.Error(), time.Since(t0).Seconds())
		fmt.Printf("VIOLATION property=%s replay=%s no-failing-input-found\n", id, writeReplay(id, "load-error", map[string]interface{}{"error": err.Error()}))
		return 1
	}
	loadS := time.Since(t0).Seconds()
	kfs, err := loadKnownFindings()
	if err != nil {
		fmt.Println("gocv:", err)
		return 2
	}
	var units []*unit
	var keys []string
	for k := range p.Specs.Contracts {
		keys = append(keys, k)
	}
	sort.Strings(keys)
	for _, k := range keys {
		fc := p.Specs.Contracts[k]
		if hasProp(fc.Props, id) {
			units = append(units, &unit{kind: "func", fc: fc})
		}
	}
	var lnames []string
	for n := range p.Specs.Lemmas {
		lnames = append(lnames, n)
	}
	sort.Strings(lnames)
	for _, n := range lnames {
		if hasProp(p.Specs.Lemmas[n].Props, id) {
			units = append(units, &unit{kind: "lemma", lm: p.Specs.Lemmas[n]})
		}
	}
	timeout := 45 // quick tier: obligations normally discharge in well under 10 s; the margin absorbs a loaded machine (undecided ones are retried alone)
	if tier == "thorough" {
		timeout = 120
	}
	if v, err := strconv.Atoi(os.Getenv("GOCV_TIMEOUT")); err == nil && v > 0 {
		timeout = v // the must-fail corpus runs with a short timeout: an obligation that fails is reported either way
	}
	tExec := time.Now()
	var all []*Obligation
	regionFor := map[string][]KnownFinding{}
	foreign := map[string]string{} // finding text -> property it is recorded under (when not the one being checked)
	for _, kf := range kfs {
		if kf.Status == "known" {
			// a function can carry clauses of several properties; the recorded region applies whichever property is being checked
			regionFor[kf.Obligation] = append(regionFor[kf.Obligation], kf)
			if kf.Property != id {
				foreign[kf.What] = kf.Property
			}
		}
	}
	knownRegions = regionFor
	for _, u := range units {
		if u.kind == "func" {
			opts := VerifyOpts{}
			// C07 states that every amount up to the locked coins can be split: its functions (all of them also under C20) are
			// verified in panic mode here too, so that a crash on a large amount is a C07 violation as well
			if id == "C10" || id == "C20" || id == "C07" {
				opts.PanicMode = true
				opts.PanicProps = []string{"C10", "C20"}
			}
			u.rep = VerifyFunc(p, u.fc, opts)
		} else {
			u.rep = VerifyLemma(p, u.lm)
		}
		all = append(all, u.rep.Obligations...)
	}
	if f := extraChecks[id]; f != nil {
		for _, rep := range f(p, tier) {
			units = append(units, &unit{kind: "extra", rep: rep})
			all = append(all, rep.Obligations...)
		}
	}
	execS := time.Since(tExec).Seconds()
	var pending []*Obligation
	for _, o := range all {
		if o.Status == "" {
			pending = append(pending, o)
		}
	}
	tSolve := time.Now()
	DischargeAll(pending, timeout, tier == "thorough", runtime.NumCPU())
	solveWall := time.Since(tSolve).Seconds()

	// ---- classify ----
	type viol struct {
		o    *Obligation
		path string
	}
	var viols []viol
	var knownHit []string
	canarySeen := map[string]bool{}
	discharged, bounded := 0, 0
	bySolver := map[string]int{}
	var solverTime float64
	nonBounded := 0
	covers := 0
	for _, o := range all {
		solverTime += o.TimeS
		if o.Bounded {
			bounded++
			continue
		}
		if o.Kind == "known-finding-canary" {
			canarySeen[o.Note] = true
			if o.Status != "discharged" { // inside the recorded region the obligation still does not hold
				knownHit = append(knownHit, o.Note)
			}
			continue
		}
		if o.Kind == "effect" && o.Status != "discharged" {
			// effect and wiring obligations have no input region: a recorded finding names the failing call site itself
			// (function + callee + ordinal); any other failing call site is still a violation.
			// Like the canaries of region findings, a listed site is reported under known findings, not counted as an obligation
			listed := false
			for _, kf := range regionFor[o.Name] {
				if kf.Region == "" {
					listed = true
					knownHit = append(knownHit, kf.What)
				}
			}
			if listed {
				continue
			}
		}
		nonBounded++
		if o.Kind == "cover" {
			covers++
		}
		if o.Status == "discharged" {
			discharged++
			bySolver[o.Solver]++
			continue
		}
		viols = append(viols, viol{o: o})
	}
	for note := range canarySeen {
		found := false
		for _, h := range knownHit {
			if h == note {
				found = true
			}
		}
		if !found {
			fmt.Printf("note: a recorded known finding no longer reproduces (its obligation now holds inside the recorded region): %s\n", clip(note, 160))
		}
	}
	vacuous := nonBounded == 0
	rc := 0
	for _, kh := range dedupe(knownHit) {
		if p2, isForeign := foreign[kh]; isForeign {
			fmt.Printf("note: obligation shared with %s has a recorded known finding (reported by the %s check): %s\n", p2, p2, clip(kh, 120))
			continue
		}
		fmt.Printf("KNOWN-FINDING: property=%s %s\n", id, kh)
	}
	reported := map[string]bool{}
	for i := range viols {
		o := viols[i].o
		if reported[o.Name] {
			continue
		}
		reported[o.Name] = true
		suffix := " no-failing-input-found"
		rp := writeReplay(id, o.Name, map[string]interface{}{
			"property": id, "obligation": o.Name, "kind": o.Kind, "function": o.Func, "status": o.Status, "solver_output": o.Output,
			"clause": o.Note, "goal": clip(o.Goal.String(), 4000), "model": o.Model, "model_from_quantifier_free_relaxation": o.Relaxed,
			"replayed_on_real_code": false,
		})
		// (a model of the quantifier-free relaxation is only a candidate input; a replay is believed only when the real run
		// confirms it, so trying it costs nothing)
		if o.Model != nil {
			if ok, detail := tryReplay(p, id, o, rp); ok {
				suffix = ""
				_ = detail
			}
		}
		fmt.Printf("VIOLATION property=%s replay=%s obligation=%s status=%s%s\n", id, rp, o.Name, o.Status, suffix)
		rc = 1
	}
	// ---- thorough tier: the replay tests of the repaired defects run against the real code (regression guard with a real
	// failing input: a repaired defect that returns fails its replay test) ----
	var replayRuns []map[string]interface{}
	if tier == "thorough" {
		for _, rr := range runRegressionReplays(id) {
			replayRuns = append(replayRuns, rr)
			if rr["result"] == "fail" {
				fmt.Printf("VIOLATION property=%s replay=%s test=%v (replayed on the real code: a repaired defect is back)\n", id, rr["file"], rr["failed_tests"])
				rc = 1
			} else if rr["result"] == "error" {
				fmt.Printf("note: replay %s could not be run: %v\n", rr["file"], rr["detail"])
			}
		}
	}
	if vacuous {
		rp := writeReplay(id, "vacuous", map[string]interface{}{"property": id, "error": "no obligations were generated for this property"})
		fmt.Printf("VIOLATION property=%s replay=%s no-failing-input-found (no obligations generated)\n", id, rp)
		rc = 1
	}

	// ---- evidence ----
	var funcs, trusted, libs, inlined, abstractions, lemmas []string
	seenS := map[string]bool{}
	add := func(dst *[]string, pre string, xs []string) {
		for _, s := range xs {
			if !seenS[pre+s] {
				seenS[pre+s] = true
				*dst = append(*dst, s)
			}
		}
	}
	paths := 0
	for _, u := range units {
		switch u.kind {
		case "func":
			funcs = append(funcs, u.fc.Key())
		case "lemma":
			lemmas = append(lemmas, u.lm.Name)
		default:
			funcs = append(funcs, u.rep.Key)
		}
		add(&trusted, "t:", u.rep.TrustedUsed)
		add(&libs, "l:", u.rep.LibUsed)
		add(&inlined, "i:", u.rep.Inlined)
		add(&abstractions, "a:", u.rep.Abstractions)
		paths += u.rep.Paths
	}
	sort.Strings(trusted)
	sort.Strings(libs)
	sort.Strings(inlined)
	sort.Strings(abstractions)
	var tb []string
	for _, s := range trusted {
		tb = append(tb, "assumed accessor/callee contract (not verified): "+s)
	}
	for _, s := range libs {
		tb = append(tb, "library model (assumed contract of dependency): "+s)
	}
	for _, s := range abstractions {
		tb = append(tb, "abstraction: "+s)
	}
	tb = append(tb, "integer model: Go machine integers are mathematical integers with a no-overflow obligation on every + - * and conversion; math.Int / sdk.Dec are mathematical integers (Dec scaled by 10^18)",
		"memory model: one SMT array per struct field (Burstall-Bornat); append always reallocates (no capacity aliasing); package-level variables immutable",
		"engine gocv (go/ssa symbolic execution, this repository) is not itself verified")
	var samples []map[string]interface{}
	sortObligations(all)
	kindsSeen := map[string]int{}
	for _, o := range all {
		if o.Bounded || kindsSeen[o.Kind] >= 2 || len(samples) >= 12 {
			continue
		}
		kindsSeen[o.Kind]++
		samples = append(samples, map[string]interface{}{"obligation": o.Name, "kind": o.Kind, "clause": clip(o.Note, 200), "status": o.Status,
			"solver": o.Solver, "time_s": round3(o.TimeS), "smt_bytes": o.SMTSize, "goal": clip(o.Goal.String(), 300)})
	}
	cov := map[string]interface{}{
		"obligations":            nonBounded,
		"discharged":             discharged,
		"checker_cmd":            fmt.Sprintf("./bin/gocv check %s --tier %s   (obligations: SMT-LIB 2, discharged by z3-new 5.1.0 / z3 4.8.12 / cvc5 1.0; first unsat wins%s)", id, tier, map[bool]string{true: ", cross-checked by the other solvers", false: ""}[tier == "thorough"]),
		"trusted_base":           tb,
		"functions_under_contract": funcs,
		"lemmas":                 lemmas,
		"inlined_callees":        inlined,
		"paths_explored":         paths,
		"discharged_by_backend":  bySolver,
		"solver_time_s":          round3(solverTime),
		"solver_wall_s":          round3(solveWall),
		"load_s":                 round3(loadS),
		"vcgen_s":                round3(execS),
		"cover_obligations":      covers,
		"bounded_checks":         bounded,
		"known_findings_reproduced": dedupe(knownHit),
		"samples":                samples,
		"undischarged":           len(viols),
		"timeout_s":              timeout,
	}
	if replayRuns != nil {
		cov["regression_replays_on_real_code"] = replayRuns
	}
	{
		// which of this property's functions a solver counterexample can be replayed on automatically (flat signatures;
		// engine/autoreplay.go) - for the others a violation line ends with no-failing-input-found
		var auto []string
		for _, k := range keys {
			if fc := p.Specs.Contracts[k]; fc != nil && !fc.Trusted && !fc.Inline && hasProp(fc.Props, id) && autoReplayable(p.Funcs[k]) {
				auto = append(auto, k)
			}
		}
		cov["counterexample_replay_automatic_for"] = auto
	}
	if id == "C20" || id == "C10" {
		// entry points carrying the pending marker (<id>x) are not claimed: list them, never count them
		var unclaimed []string
		for _, k := range keys {
			if hasProp(p.Specs.Contracts[k].Props, id+"x") {
				unclaimed = append(unclaimed, k)
			}
		}
		cov["unclaimed_functions"] = unclaimed
	}
	ev := map[string]interface{}{
		"property_id": id, "tier": tier, "seed": seed, "level": "proof", "coverage": cov,
		"assumptions": append(manifestNote(id), propertyAssumptions[id]...), "wall_s": round3(time.Since(t0).Seconds()), "violations": len(reported),
	}
	writeEvidence(id, ev)
	fmt.Printf("property %s: %d obligations (%d functions, %d lemmas), %d discharged, %d not discharged, %d known findings; wall %.1fs\n",
		id, nonBounded, len(funcs), len(lemmas), discharged, len(viols), len(dedupe(knownHit)), time.Since(t0).Seconds())
	return rc
}

var knownRegions map[string][]KnownFinding


func round3(f float64) float64 { return float64(int(f*1000+0.5)) / 1000 }

func dedupe(xs []string) []string {
	seen := map[string]bool{}
	var out []string
	for _, x := range xs {
		if !seen[x] {
			seen[x] = true
			out = append(out, x)
		}
	}
	sort.Strings(out)
	return out
}

func reorderFlags(args []string) []string {
	var flags, rest []string
	for i := 0; i < len(args); i++ {
		a := args[i]
		if strings.HasPrefix(a, "-") {
			flags = append(flags, a)
			if !strings.Contains(a, "=") && i+1 < len(args) && (a == "--tier" || a == "-tier") {
				flags = append(flags, args[i+1])
				i++
			}
		} else {
			rest = append(rest, a)
		}
	}
	return append(flags, rest...)
}

var unsafeName = regexp.MustCompile(`[^A-Za-z0-9_.-]+`)

func writeReplay(id, name string, content map[string]interface{}) string {
	dir := filepath.Join(outDir(), "replays", id)
	os.MkdirAll(dir, 0o755)
	fn := unsafeName.ReplaceAllString(name, "_")
	if len(fn) > 120 {
		fn = fn[len(fn)-120:]
	}
	path := filepath.Join(dir, fn+".json")
	b, _ := json.MarshalIndent(content, "", " ")
	os.WriteFile(path, b, 0o644)
	return path
}

func writeEvidence(id string, ev map[string]interface{}) {
	dir := filepath.Join(outDir(), "evidence")
	os.MkdirAll(dir, 0o755)
	b, _ := json.MarshalIndent(ev, "", " ")
	os.WriteFile(filepath.Join(dir, id+".json"), b, 0o644)
}

func writeFailureEvidence(id, tier string, seed int, msg string, wall float64) {
	writeEvidence(id, map[string]interface{}{
		"property_id": id, "tier": tier, "seed": seed, "level": "proof",
		"coverage": map[string]interface{}{"obligations": 1, "discharged": 0, "checker_cmd": "./bin/gocv check " + id, "trusted_base": []string{}, "error": msg},
		"wall_s": wall, "violations": 1,
	})
}

// tryReplay: replay drivers are registered per function; see replay.go.
func tryReplay(p *Program, id string, o *Obligation, replayPath string) (bool, string) {
	if d := replayDrivers[o.Func]; d != nil {
		return d(p, id, o, replayPath)
	}
	return autoReplay(p, id, o, replayPath)
}

var replayDrivers = map[string]func(p *Program, id string, o *Obligation, replayPath string) (bool, string){}


// runRegressionReplays runs, with `go test -overlay`, the replay tests registered for the property in /verif/replay/index.json.
// Each test fails exactly when the defect it was written for is present in /repo's current working tree.
func runRegressionReplays(id string) []map[string]interface{} {
	raw, err := os.ReadFile(filepath.Join(verifDir(), "replay", "index.json"))
	if err != nil {
		return nil
	}
	var idx []struct {
		Property, File, Pkg, What string
		Tests                     []string
		Bounded                   bool
	}
	if json.Unmarshal(raw, &idx) != nil {
		return nil
	}
	var out []map[string]interface{}
	for _, e := range idx {
		if e.Property != id {
			continue
		}
		res := map[string]interface{}{"file": filepath.Join(verifDir(), "replay", e.File), "package": e.Pkg, "tests": e.Tests, "what": e.What}
		if e.Bounded {
			res["bounded"] = true // a bounded stand-in: never counted as proved
		}
		dir, err := os.MkdirTemp("", "gocv-replay")
		if err != nil {
			res["result"], res["detail"] = "error", err.Error()
			out = append(out, res)
			continue
		}
		target := filepath.Join(repoDir(), strings.TrimPrefix(e.Pkg, "./"), "zz_replay_test.go")
		ov, _ := json.Marshal(map[string]interface{}{"Replace": map[string]string{target: filepath.Join(verifDir(), "replay", e.File)}})
		ovFile := filepath.Join(dir, "overlay.json")
		_ = os.WriteFile(ovFile, ov, 0o644)
		cmd := exec.Command("go", "test", "-overlay", ovFile, "-vet=off", "-count=1", "-v", "-timeout", "3000s", "-run", "^("+strings.Join(e.Tests, "|")+")$", e.Pkg)
		cmd.Dir = repoDir()
		cmd.Env = append(os.Environ(), "GOFLAGS=-mod=mod", "GOPROXY=off", "GOSUMDB=off", "GOTOOLCHAIN=local")
		outB, runErr := cmd.CombinedOutput()
		os.RemoveAll(dir)
		txt := string(outB)
		var failed []string
		for _, ln := range strings.Split(txt, "\n") {
			if strings.HasPrefix(ln, "--- FAIL: ") {
				failed = append(failed, strings.Fields(strings.TrimPrefix(ln, "--- FAIL: "))[0])
			}
		}
		for _, ln := range strings.Split(txt, "\n") {
			if i := strings.Index(ln, "BOUNDED: "); i >= 0 && strings.Contains(ln, " cases") {
				res["bounded_summary"] = strings.TrimSpace(ln[i:])
			}
		}
		switch {
		case runErr == nil:
			res["result"] = "pass"
		case len(failed) > 0:
			res["result"], res["failed_tests"] = "fail", failed
			var msgs []string
			for _, ln := range strings.Split(txt, "\n") {
				if strings.Contains(ln, "REPLAY:") {
					msgs = append(msgs, strings.TrimSpace(ln))
				}
			}
			res["detail"] = msgs
		default:
			res["result"], res["detail"] = "error", clip(txt, 600)
		}
		out = append(out, res)
	}
	return out
}


// manifestNote returns the claim's level note (what is assumed, what is not covered) from MANIFEST.json, so that the evidence
// of a run carries it next to the measured trusted base.
func manifestNote(id string) []string {
	raw, err := os.ReadFile(filepath.Join(verifDir(), "MANIFEST.json"))
	if err != nil {
		return []string{}
	}
	var m struct {
		Checks []struct {
			PropertyID string `json:"property_id"`
			LevelNote  string `json:"level_note"`
		} `json:"checks"`
	}
	if json.Unmarshal(raw, &m) != nil {
		return []string{}
	}
	for _, c := range m.Checks {
		if c.PropertyID == id && c.LevelNote != "" {
			return []string{c.LevelNote}
		}
	}
	return []string{}
}
