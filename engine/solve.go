package main

// Obligations and their discharge by z3-new / z3 / cvc5.

import (
	"crypto/md5"
	"regexp"
	"bytes"
	"context"
	"fmt"
	"os"
	"os/exec"
	"path/filepath"
	"sort"
	"strings"
	"sync"
	"sync/atomic"
	"time"
)

var P18 = NumStr("1000000000000000000")

type Watch struct {
	Name string
	T    *Term
}

type Obligation struct {
	Name    string // stable name <pkg>.<func>/<kind>#<ordinal>
	Kind    string
	Func    string
	Pos     string // informational only
	Hyps    []*Term
	Goal    *Term
	Axioms  []*Term
	Opaque  map[string]bool
	Watch   []Watch // input terms whose model values make up a counterexample
	Expect  string  // "unsat" (default) or "sat" (cover / canary obligations)
	Note    string
	Bounded bool // belongs to a bounded stand-in, never counted as proved
	Group   string // obligations with the same non-empty group hold together if ANY member is discharged (reachability covers)

	SpecDefs map[string]*SpecDef
	Fuel     int
	noQuant bool // emit without quantified axioms/hypotheses (relaxation)

	// results
	Relaxed bool   // the model comes from the relaxation without quantified facts
	Status  string // discharged | failed | undecided | error
	Solver  string
	TimeS   float64
	Model   map[string]string
	modelExtra []string
	smallModel bool
	Output  string
	SMTSize int
}

type preludeFun struct {
	name string
	args []string // "(x Int)"
	asrt []string
	ret  string
	body string
}

// Prelude: non-recursive helpers over a numeral divisor (linear for the solver).
var preludeFuns = []preludeFun{
	{"absI", []string{"(x Int)"}, []string{SInt}, SInt, "(ite (>= x 0) x (- x))"},
	// banker's rounding of x / 10^18 for x >= 0 (chopPrecisionAndRound on the magnitude)
	{"roundHEnn", []string{"(x Int)"}, []string{SInt}, SInt,
		"(let ((q (div x 1000000000000000000)) (r (mod x 1000000000000000000))) (ite (< r 500000000000000000) q (ite (> r 500000000000000000) (+ q 1) (ite (= (mod q 2) 0) q (+ q 1)))))"},
	{"chopRound", []string{"(x Int)"}, []string{SInt}, SInt, "(ite (>= x 0) (roundHEnn x) (- (roundHEnn (- x))))"},
	// truncation toward zero by 10^18
	{"truncP", []string{"(x Int)"}, []string{SInt}, SInt, "(ite (>= x 0) (div x 1000000000000000000) (- (div (- x) 1000000000000000000)))"},
}

func ChopRound(x *Term) *Term { return UF("chopRound", []string{SInt}, SInt, x) }
func TruncP(x *Term) *Term    { return UF("truncP", []string{SInt}, SInt, x) }
func AbsI(x *Term) *Term      { return UF("absI", []string{SInt}, SInt, x) }

// TQuo is big.Int.Quo / Go integer division: truncation toward zero.
func TQuo(x, y *Term) *Term {
	if y.K == TNum && y.Num.Sign() > 0 {
		if x.K == TNum {
			q := new(bigInt).Quo(x.Num, y.Num)
			return NumBig(q)
		}
		return Ite(Ge(x, Num(0)), DivC(x, y), Neg(DivC(Neg(x), y)))
	}
	return UF("tquo", []string{SInt, SInt}, SInt, x, y)
}

// ElemIdx is the backing-array index of element i of a slice with offset off. A symbolic
// offset is wrapped in the function idx(off, i) = off + i so that quantifier patterns over
// slice elements match syntactically (E-matching does not see through arithmetic).
func ElemIdx(off, i *Term) *Term {
	if off.K == TNum {
		return Add(off, i)
	}
	return UF("idx", []string{SInt, SInt}, SInt, off, i)
}

// A Coins value is modelled as a function denom -> amount; when code indexes it as a slice, element i is
// the coin (denomAt(c,i), c[denomAt(c,i)]) with pairwise distinct denoms and a positive amount.
func CoinsLen(c *Term) *Term { return UF("coinsLen", []string{sortStrArrInt}, SInt, c) }
func DenomAt(c, i *Term) *Term {
	return UF("denomAt", []string{sortStrArrInt, SInt}, SStr, c, i)
}

// TRem is Go's % (sign of dividend).
func TRem(x, y *Term) *Term { return Sub(x, Mul(y, TQuo(x, y))) }

func tquoInstance(t *Term) *Term {
	x, y, q := t.Args[0], t.Args[1], t
	yq := Mul(y, q)
	pp := And(Le(yq, x), Lt(x, Add(yq, y)))
	pn := And(Ge(yq, x), Gt(x, Sub(yq, y)))
	np := And(Le(yq, x), Lt(x, Sub(yq, y)))
	nn := And(Ge(yq, x), Gt(x, Add(yq, y)))
	body := Ite(Gt(y, Num(0)), Ite(Ge(x, Num(0)), pp, pn), Ite(Ge(x, Num(0)), np, nn))
	return Implies(Neq(y, Num(0)), body)
}

// defConsts: constants introduced as names for terms (c = t); such a hypothesis is only
// relevant if c is mentioned elsewhere.
// They are recognised by their name prefix ("d:" for values, "dH:" for heap versions), so that the numbering of fresh names
// can restart for every verification unit.
func isDefHyp(h *Term) (string, bool) {
	if h.K == TApp && h.Op == "=" && len(h.Args) == 2 && h.Args[0].K == TConst {
		if op := h.Args[0].Op; strings.HasPrefix(op, "d:") || strings.HasPrefix(op, "dH:") {
			return op, true
		}
	}
	return "", false
}

func constsOf(t *Term, out map[string]bool) {
	switch t.K {
	case TConst:
		out[t.Op] = true
	case TApp:
		for _, a := range t.Args {
			constsOf(a, out)
		}
	case TQuant:
		constsOf(t.Args[0], out)
	}
}

// relevantHyps drops definitional hypotheses whose constant is never used (cone of influence).
func (o *Obligation) relevantHyps() []*Term {
	defs := map[string]*Term{}
	var keep []*Term
	needed := map[string]bool{}
	for _, h := range o.Hyps {
		if c, ok := isDefHyp(h); ok {
			if _, dup := defs[c]; !dup {
				defs[c] = h
				continue
			}
		}
		constsOf(h, needed)
	}
	constsOf(o.Goal, needed)
	for _, w := range o.Watch {
		_ = w
	}
	// transitive closure
	work := make([]string, 0, len(needed))
	for c := range needed {
		work = append(work, c)
	}
	used := map[string]bool{}
	for len(work) > 0 {
		c := work[len(work)-1]
		work = work[:len(work)-1]
		if d, ok := defs[c]; ok && !used[c] {
			used[c] = true
			m := map[string]bool{}
			constsOf(d.Args[1], m)
			for c2 := range m {
				if !needed[c2] {
					needed[c2] = true
					work = append(work, c2)
				}
			}
		}
	}
	for _, h := range o.Hyps {
		if c, ok := isDefHyp(h); ok && defs[c] == h {
			if used[c] {
				keep = append(keep, h)
			}
			continue
		}
		keep = append(keep, h)
	}
	return keep
}

var reDenomLit = regexp.MustCompile(`^[a-zA-Z][a-zA-Z0-9/:._-]{2,127}$`)

func introGoal(g *Term) (*Term, []*Term) {
	var hyps []*Term
	skCounter := 0 // per obligation: the text of an obligation must not depend on the order in which obligations are solved
	for {
		switch {
		case g.K == TQuant && g.Op == "forall":
			m := map[string]*Term{}
			for _, v := range g.Vars {
				skCounter++
				m[v.Op] = Const(fmt.Sprintf("sk:%s:%d", v.Op, skCounter), v.Sort)
			}
			g = subst(g.Args[0], m)
		case g.K == TApp && g.Op == "=>" && len(g.Args) == 2:
			hyps = append(hyps, g.Args[0])
			g = g.Args[1]
		default:
			return g, hyps
		}
	}
}

func (o *Obligation) SMT(withModel bool, forCVC5 bool) string {
	var sb strings.Builder
	hyps := o.relevantHyps()
	if withModel || forCVC5 {
		sb.WriteString("(set-option :produce-models true)\n")
	}
	sb.WriteString("(set-logic ALL)\n")
	d := NewDecls()
	goal := o.Goal
	if o.Expect != "sat" {
		// goal introduction: (A ==> forall x. B) becomes hypothesis A, goal B[x := fresh constant], so that spec-function
		// applications in the goal are ground and get unfolded
		var extra []*Term
		goal, extra = introGoal(goal)
		hyps = append(hyps, extra...)
	}
	all := append(append([]*Term{}, o.Axioms...), hyps...)
	all = append(all, goal)
	for _, w := range o.Watch {
		all = append(all, w.T)
	}
	// eager instantiation of tquo
	// cvaVested (x/auth vesting schedule): definition at every ground application, quantified axiom for the rest
	{
		var vapps []*Term
		vseen := map[string]bool{}
		for _, t := range all {
			collectApps(t, func(a *Term) bool { return a.UFun && a.Op == "cvaVested" }, nil, &vapps, vseen)
		}
		usesVested := len(vapps) > 0
		if !usesVested {
			for _, t := range all {
				if strings.Contains(t.String(), "cvaVested") {
					usesVested = true
					break
				}
			}
		}
		// `opaque cvaVested` in a contract: the schedule function stays uninterpreted (its bounds then come from lemmas only)
		if usesVested && !o.Opaque["cvaVested"] {
			for _, a := range vapps {
				all = append(all, Eq(a, vestedAmountDef(a.Args[0], a.Args[1], a.Args[2], a.Args[3])))
				hyps = append(hyps, all[len(all)-1])
			}
			// the quantified form is only needed when an application sits under a quantifier (e.g. "for every denomination")
			underQuant := false
			var hasQ func(t *Term, inQ bool)
			hasQ = func(t *Term, inQ bool) {
				if underQuant || t == nil {
					return
				}
				if t.K == TApp && t.UFun && t.Op == "cvaVested" && inQ {
					underQuant = true
					return
				}
				for _, a := range t.Args {
					hasQ(a, inQ || t.K == TQuant)
				}
			}
			for _, t := range all {
				hasQ(t, false)
			}
			if underQuant {
				bv := []*Term{Bound("cv_ov", SInt), Bound("cv_st", SInt), Bound("cv_en", SInt), Bound("cv_tu", SInt)}
				app := vestedAmount(bv[0], bv[1], bv[2], bv[3])
				ax := Forall(bv, Eq(app, vestedAmountDef(bv[0], bv[1], bv[2], bv[3])), []*Term{app})
				all = append(all, ax)
				hyps = append(hyps, ax)
			}
		}
	}
	var apps []*Term
	seen := map[string]bool{}
	// `opaque tquo` in a contract: truncated division stays uninterpreted in this unit's obligations (its facts then come from
	// lemmas only); keeps large nonlinear instance axioms out of obligations that need nothing but congruence
	tquoOpaque := o.Opaque["tquo"]
	for _, t := range all {
		if tquoOpaque {
			break
		}
		collectApps(t, func(a *Term) bool { return a.UFun && a.Op == "tquo" }, nil, &apps, seen)
	}
	var inst []*Term
	// fuel-bounded unfolding of recursive spec functions at their ground applications
	fuel := o.Fuel
	if fuel == 0 {
		fuel = 2
	}
	if len(o.SpecDefs) > 0 {
		seenApp := map[string]bool{}
		frontier := all
		for round := 0; round < fuel; round++ {
			var sapps []*Term
			for _, t := range frontier {
				collectApps(t, func(a *Term) bool { return a.UFun && o.SpecDefs[a.Op] != nil }, nil, &sapps, seenApp)
			}
			var next []*Term
			for _, a := range sapps {
				d := o.SpecDefs[a.Op]
				m := map[string]*Term{}
				for i, v := range d.Vars {
					m[v.Op] = a.Args[i]
				}
				in := subst(d.Def, m)
				inst = append(inst, in)
				next = append(next, in)
			}
			frontier = next
			if len(next) == 0 {
				break
			}
		}
		// tquo applications inside the unfolded instances
		for _, t := range inst {
			if tquoOpaque {
				break
			}
			collectApps(t, func(a *Term) bool { return a.UFun && a.Op == "tquo" }, nil, &apps, seen)
		}
	}
	for _, a := range apps {
		inst = append(inst, tquoInstance(a))
	}
	for _, t := range all {
		d.Walk(t)
	}
	for _, t := range inst {
		d.Walk(t)
	}
	// string literals: pairwise distinct, known lengths; nil []byte has length 0
	var strAx []*Term
	{
		var lits []string
		for n, srt := range d.consts {
			if srt == SStr && strings.HasPrefix(n, "str:") {
				lits = append(lits, n)
			}
		}
		sort.Strings(lits)
		_, usesLen := d.funs["strlen"]
		var ts []*Term
		for _, n := range lits {
			c := Const(n, SStr)
			ts = append(ts, c)
			if usesLen {
				strAx = append(strAx, Eq(StrLen(c), Num(int64(len(n)-len("str:")))))
			}
		}
		if _, ok := d.consts["bytes:nil"]; ok {
			c := Const("bytes:nil", SStr)
			ts = append(ts, c)
			if usesLen {
				strAx = append(strAx, Eq(StrLen(c), Num(0)))
			}
		}
		if _, ok := d.funs["validDenom"]; ok {
			// sdk.ValidateDenom on a literal is decided by its regular expression (cosmos-sdk v0.46.10 types/coin.go)
			for _, n := range lits {
				lit := strings.TrimPrefix(n, "str:")
				strAx = append(strAx, Eq(validDenom(Const(n, SStr)), BoolT(reDenomLit.MatchString(lit))))
			}
			strAx = append(strAx, Not(validDenom(emptyStr)))
			d.consts["str:"] = SStr
		}
		if len(ts) > 1 {
			strAx = append(strAx, &Term{K: TApp, Op: "distinct", Sort: SBool, Args: ts})
		}
		if usesLen {
			sv := Bound("s", SStr)
			strAx = append(strAx, Forall([]*Term{sv}, Ge(StrLen(sv), Num(0)), []*Term{StrLen(sv)}))
			strAx = append(strAx, Forall([]*Term{sv}, Implies(Eq(StrLen(sv), Num(0)), Or(Eq(sv, emptyStr), Eq(sv, Const("bytes:nil", SStr)))), []*Term{StrLen(sv)}))
			d.consts["bytes:nil"] = SStr
			d.consts["str:"] = SStr
			d.sorts[SStr] = true
		}
		if _, ok := d.funs["strcat"]; ok {
			a, b := Bound("a", SStr), Bound("b", SStr)
			d.funs["strlen"] = []string{SStr, SInt}
			strAx = append(strAx, Forall([]*Term{a, b}, Eq(StrLen(StrCat(a, b)), Add(StrLen(a), StrLen(b))), []*Term{StrCat(a, b)}))
		}
	}
	// codec: decode is the inverse of encode (per leaf); string concatenation has a left inverse
	{
		var fnames []string
		for n := range d.funs {
			fnames = append(fnames, n)
		}
		sort.Strings(fnames)
		for _, n := range fnames {
			sig := d.funs[n]
			if strings.HasPrefix(n, "dec0:encsnap:") {
				en := strings.TrimPrefix(n, "dec0:")
				if _, ok := d.funs[en]; !ok {
					d.funs[en] = []string{SInt, SStr}
					fnames = append(fnames, en)
				}
				continue
			}
			if strings.HasPrefix(n, "enc:") || strings.HasPrefix(n, "encsnap:") {
				var vars []*Term
				for i, srt := range sig[:len(sig)-1] {
					vars = append(vars, Bound(fmt.Sprintf("e%d", i), srt))
				}
				app := UF(n, sig[:len(sig)-1], SStr, vars...)
				for i, v := range vars {
					dn := fmt.Sprintf("dec%d:%s", i, n)
					d.funs[dn] = []string{SStr, v.Sort}
					strAx = append(strAx, Forall(vars, Eq(UF(dn, []string{SStr}, v.Sort, app), v), []*Term{app}))
				}
			}
		}
		// two literals neither of which is a prefix of the other can never start the same string
		{
			lits := map[string]bool{}
			var walkLits func(t *Term)
			walkLits = func(t *Term) {
				if t.K == TApp && t.UFun && t.Op == "strcat" && t.Args[0].K == TConst && strings.HasPrefix(t.Args[0].Op, "str:") {
					lits[t.Args[0].Op] = true
				}
				for _, a := range t.Args {
					walkLits(a)
				}
				for _, p := range t.Pats {
					for _, pt := range p {
						walkLits(pt)
					}
				}
			}
			for _, t := range all {
				walkLits(t)
			}
			var ls []string
			for l := range lits {
				ls = append(ls, l)
			}
			sort.Strings(ls)
			for i := 0; i < len(ls); i++ {
				for j := i + 1; j < len(ls); j++ {
					x1, x2 := strings.TrimPrefix(ls[i], "str:"), strings.TrimPrefix(ls[j], "str:")
					if strings.HasPrefix(x1, x2) || strings.HasPrefix(x2, x1) {
						continue
					}
					a, b := Bound("a", SStr), Bound("b", SStr)
					strAx = append(strAx, Forall([]*Term{a, b}, Neq(StrCat(Const(ls[i], SStr), a), StrCat(Const(ls[j], SStr), b)),
						[]*Term{StrCat(Const(ls[i], SStr), a), StrCat(Const(ls[j], SStr), b)}))
				}
			}
		}
		if _, ok := d.funs["strcat"]; ok {
			a, b := Bound("a", SStr), Bound("b", SStr)
			d.funs["strtail"] = []string{SStr, SStr, SStr}
			strAx = append(strAx, Forall([]*Term{a, b}, Eq(UF("strtail", []string{SStr, SStr}, SStr, a, StrCat(a, b)), b), []*Term{StrCat(a, b)}))
		}
	}
	if _, ok := d.funs["strcat"]; ok {
		// a concatenation contains a '-' exactly if one of its parts does; a literal, if it is written with one: enough to tell
		// "<type>-<id>" keys from dash-free literals such as "MAIN" (the distributor's occurrence map)
		a, b := Bound("a", SStr), Bound("b", SStr)
		d.funs["hasDash"] = []string{SStr, SBool}
		hd := func(x *Term) *Term { return UF("hasDash", []string{SStr}, SBool, x) }
		strAx = append(strAx, Forall([]*Term{a, b}, Eq(hd(StrCat(a, b)), Or(hd(a), hd(b))), []*Term{StrCat(a, b)}))
		var dl []string
		for n, srt := range d.consts {
			if srt == SStr && strings.HasPrefix(n, "str:") {
				dl = append(dl, n)
			}
		}
		sort.Strings(dl)
		for _, n := range dl {
			strAx = append(strAx, Eq(hd(Const(n, SStr)), BoolT(strings.Contains(strings.TrimPrefix(n, "str:"), "-"))))
		}
	}
	{
		// registered errors are distinct objects
		var eg []string
		for n := range d.consts {
			if errGlobals[n] {
				eg = append(eg, n)
			}
		}
		sort.Strings(eg)
		if len(eg) > 1 {
			var ts []*Term
			for _, n := range eg {
				ts = append(ts, Const(n, SInt))
			}
			strAx = append(strAx, &Term{K: TApp, Op: "distinct", Sort: SBool, Args: ts})
		}
	}
	if _, ok := d.funs["modaddr"]; ok {
		// module account addresses are hashes of the module names: distinct names, distinct addresses (collision-freeness of
		// the hash, a stated assumption of the library model)
		a, b := Bound("a", SStr), Bound("b", SStr)
		strAx = append(strAx, Forall([]*Term{a, b}, Implies(Eq(modAddr(a), modAddr(b)), Eq(a, b)), []*Term{modAddr(a), modAddr(b)}))
	}
	if _, ok := d.funs["toBech32"]; ok {
		// bech32 decoding is the inverse of encoding
		a := Bound("a", SStr)
		d.funs["fromBech32"] = []string{SStr, SStr}
		tb := UF("toBech32", []string{SStr}, SStr, a)
		strAx = append(strAx, Forall([]*Term{a}, Eq(UF("fromBech32", []string{SStr}, SStr, tb), a), []*Term{tb}))
	}
	if _, ok := d.funs["denomAt"]; ok {
		d.funs["coinsLen"] = []string{sortStrArrInt, SInt}
		cA, i, j := Bound("c", sortStrArrInt), Bound("i", SInt), Bound("j", SInt)
		inR := func(k *Term) *Term { return And(Ge(k, Num(0)), Lt(k, CoinsLen(cA))) }
		strAx = append(strAx, Forall([]*Term{cA, i, j}, Implies(And(inR(i), inR(j), Neq(i, j)), Neq(DenomAt(cA, i), DenomAt(cA, j))), []*Term{DenomAt(cA, i), DenomAt(cA, j)}))
	}
	if _, ok := d.funs["idx"]; ok {
		a, b := Bound("o", SInt), Bound("i", SInt)
		ix := UF("idx", []string{SInt, SInt}, SInt, a, b)
		strAx = append(strAx, Forall([]*Term{a, b}, Eq(ix, Add(a, b)), []*Term{ix}))
	}
	skip := map[string]bool{}
	for _, pf := range preludeFuns {
		skip[pf.name] = true
	}
	d.Print(&sb, skip)
	for _, pf := range preludeFuns {
		if o.Opaque[pf.name] {
			fmt.Fprintf(&sb, "(declare-fun %s (%s) %s)\n", pf.name, strings.Join(pf.asrt, " "), pf.ret)
		} else {
			fmt.Fprintf(&sb, "(define-fun %s (%s) %s %s)\n", pf.name, strings.Join(pf.args, " "), pf.ret, pf.body)
		}
	}
	for _, a := range o.Axioms {
		if o.noQuant && a.K == TQuant {
			continue
		}
		fmt.Fprintf(&sb, "(assert %s)\n", a)
	}
	for _, a := range inst {
		fmt.Fprintf(&sb, "(assert %s)\n", a)
	}
	for _, a := range strAx {
		if o.noQuant && o.Expect == "sat" && a.K == TQuant {
			continue // satisfiability checks run on the quantifier-free part only
		}
		if o.noQuant && a.K == TQuant && !strings.Contains(a.String(), "(idx ") && !strings.Contains(a.String(), "dec") && !strings.Contains(a.String(), "denomAt") && !strings.Contains(a.String(), "toBech32") {
			continue
		}
		fmt.Fprintf(&sb, "(assert %s)\n", a)
	}
	for _, h := range hyps {
		if o.noQuant && h.K == TQuant {
			continue
		}
		if o.noQuant && o.Expect == "sat" {
			h = relaxQuant(h, true) // nested quantifiers too: a satisfiability check must stay decidable
		}
		fmt.Fprintf(&sb, "(assert %s)\n", h)
	}
	if o.Expect == "sat" {
		if o.noQuant {
			goal = relaxQuant(goal, true)
		}
		fmt.Fprintf(&sb, "(assert %s)\n", goal)
	} else {
		fmt.Fprintf(&sb, "(assert (not %s))\n", goal)
	}
	if withModel && o.smallModel {
		// a counterexample that can be built and replayed: short lists
		for _, w := range o.Watch {
			if strings.HasSuffix(w.Name, ".len") && w.T.Sort == SInt {
				fmt.Fprintf(&sb, "(assert (<= %s %d))\n", w.T, rpMaxList)
			}
		}
	}
	sb.WriteString("(check-sat)\n")
	if withModel && len(o.Watch) > 0 {
		sb.WriteString("(get-value (")
		for _, w := range o.Watch {
			sb.WriteString(w.T.String())
			sb.WriteString(" ")
		}
		// for the replay of a counterexample: which string literal a string-valued input equals (if any), its length
		// and whether it is a valid denomination, as far as the obligation speaks about those
		o.modelExtra = nil
		extra := func(name string, t *Term) {
			sb.WriteString(t.String())
			sb.WriteString(" ")
			o.modelExtra = append(o.modelExtra, name)
		}
		var lits []string
		for n, srt := range d.consts {
			if srt == SStr && (strings.HasPrefix(n, "str:") || n == "bytes:nil") {
				lits = append(lits, n)
			}
		}
		sort.Strings(lits)
		for _, n := range lits {
			extra("lit#"+n, Const(n, SStr))
		}
		_, hasLen := d.funs["strlen"]
		_, hasVD := d.funs["validDenom"]
		for _, w := range o.Watch {
			if w.T.Sort != SStr {
				continue
			}
			if hasLen {
				extra(w.Name+"#len", StrLen(w.T))
			}
			if hasVD {
				extra(w.Name+"#validDenom", validDenom(w.T))
			}
		}
		sb.WriteString("))\n")
	}
	return sb.String()
}

// relaxQuant weakens a formula until it is quantifier-free: a quantified subformula in positive position becomes true, in
// negative position false; where the polarity is mixed (under = / ite / xor) the smallest enclosing Boolean subformula is
// replaced. The result is implied by the original, so "satisfiable" answers get easier, never harder: used for covers only.
func relaxQuant(t *Term, pos bool) *Term {
	if t == nil || !hasQuant(t) {
		return t
	}
	top := func() *Term {
		if pos {
			return TrueT
		}
		return FalseT
	}
	if t.K == TQuant {
		return top()
	}
	if t.K != TApp || t.Sort != SBool {
		return top()
	}
	switch t.Op {
	case "and", "or":
		args := make([]*Term, len(t.Args))
		for i, a := range t.Args {
			args[i] = relaxQuant(a, pos)
		}
		return &Term{K: TApp, Op: t.Op, Sort: SBool, Args: args}
	case "not":
		return &Term{K: TApp, Op: "not", Sort: SBool, Args: []*Term{relaxQuant(t.Args[0], !pos)}}
	case "=>":
		if len(t.Args) == 2 {
			return &Term{K: TApp, Op: "=>", Sort: SBool, Args: []*Term{relaxQuant(t.Args[0], !pos), relaxQuant(t.Args[1], pos)}}
		}
	}
	return top()
}

func hasQuant(t *Term) bool {
	if t == nil {
		return false
	}
	if t.K == TQuant {
		return true
	}
	for _, a := range t.Args {
		if hasQuant(a) {
			return true
		}
	}
	return false
}

type solverSpec struct {
	name string
	argv func(file string, timeoutS int) []string
}

var solvers = []solverSpec{
	{"z3-new", func(f string, t int) []string { return []string{"z3-new", fmt.Sprintf("-T:%d", t), f} }},
	{"cvc5", func(f string, t int) []string {
		return []string{"cvc5", "--incremental", fmt.Sprintf("--tlimit=%d", t*1000), f}
	}},
	{"z3", func(f string, t int) []string { return []string{"z3", fmt.Sprintf("-T:%d", t), f} }},
}

var scratchDir string
var fileCounter int64

func scratch() string {
	if scratchDir == "" {
		d, err := os.MkdirTemp("", "gocv-")
		if err != nil {
			panic(err)
		}
		scratchDir = d
	}
	return scratchDir
}

func cleanupScratch() {
	if scratchDir != "" {
		os.RemoveAll(scratchDir)
	}
}

type solveResult struct {
	solver string
	answer string // sat unsat unknown timeout error
	out    string
	dt     float64
}

func runSolver(ctx context.Context, sp solverSpec, file string, timeoutS int) solveResult {
	argv := sp.argv(file, timeoutS)
	c, cancel := context.WithTimeout(ctx, time.Duration(timeoutS+2)*time.Second)
	defer cancel()
	cmd := exec.CommandContext(c, argv[0], argv[1:]...)
	var out bytes.Buffer
	cmd.Stdout = &out
	cmd.Stderr = &out
	t0 := time.Now()
	_ = cmd.Run()
	dt := time.Since(t0).Seconds()
	s := out.String()
	first := ""
	for _, ln := range strings.Split(s, "\n") {
		ln = strings.TrimSpace(ln)
		if ln == "" || strings.HasPrefix(ln, "WARNING") || strings.HasPrefix(ln, "(warning") {
			continue
		}
		first = ln
		break
	}
	ans := "error"
	switch {
	case first == "unsat":
		ans = "unsat"
	case first == "sat":
		ans = "sat"
	case first == "unknown":
		ans = "unknown"
	case strings.Contains(first, "timeout") || c.Err() != nil:
		ans = "timeout"
	case ctx.Err() != nil:
		ans = "cancelled"
	}
	return solveResult{sp.name, ans, s, dt}
}

var solverSeed = 0

// Discharge runs the solvers on one obligation. Strategy: z3-new alone with a
// short budget first; if that does not decide it, race all three.
func (o *Obligation) Discharge(timeoutS int, thorough bool) {
	want := "unsat"
	if o.Expect == "sat" || o.Expect == "refuted" {
		want = "sat"
	}
	if o.Expect == "sat" {
		// satisfiability with quantified axioms is rarely decided; covers are checked on the
		// quantifier-free part (a necessary condition for the full set being satisfiable)
		o.noQuant = true
	}
	dir := scratch()
	base := filepath.Join(dir, fmt.Sprintf("%d-%s", atomic.AddInt64(&fileCounter, 1), sanitize(o.Name)))
	txt := o.SMT(false, true)
	o.SMTSize = len(txt)
	if d := os.Getenv("GOCV_KEEPSMT"); d != "" {
		_ = os.MkdirAll(d, 0o755)
		_ = os.WriteFile(filepath.Join(d, fmt.Sprintf("%s-%x.smt2", sanitize(o.Name), md5.Sum([]byte(txt)))), []byte(txt), 0o644)
	}
	file := base + ".smt2"
	if err := os.WriteFile(file, []byte(txt), 0o644); err != nil {
		o.Status, o.Output = "error", err.Error()
		return
	}
	defer os.Remove(file)
	t0 := time.Now()
	var results []solveResult
	first := 2
	if timeoutS < first {
		first = timeoutS
	}
	r := runSolver(context.Background(), solvers[0], file, first)
	results = append(results, r)
	decided := r.answer == "sat" || r.answer == "unsat"
	if !decided {
		ctx, cancel := context.WithCancel(context.Background())
		ch := make(chan solveResult, len(solvers))
		for _, sp := range solvers {
			go func(sp solverSpec) { ch <- runSolver(ctx, sp, file, timeoutS) }(sp)
		}
		for range solvers {
			rr := <-ch
			results = append(results, rr)
			if rr.answer == "sat" || rr.answer == "unsat" {
				r = rr
				decided = true
				break
			}
		}
		cancel()
	}
	o.TimeS = time.Since(t0).Seconds()
	var outs []string
	for _, x := range results {
		outs = append(outs, fmt.Sprintf("%s: %s (%.2fs)", x.solver, x.answer, x.dt))
	}
	o.Output = strings.Join(outs, "; ")
	if !decided {
		o.Status = "undecided"
		if want == "unsat" && len(o.Watch) > 0 {
			// look for a candidate counterexample in the quantifier-free relaxation
			o.noQuant = true
			o.fetchModel(base)
			o.noQuant = false
			if o.Model != nil {
				o.Relaxed = true
			}
		}
		return
	}
	o.Solver = r.solver
	if thorough && want == "unsat" && r.answer == "unsat" {
		// cross-check: no other solver may say sat
		for _, sp := range solvers {
			if sp.name == r.solver {
				continue
			}
			rr := runSolver(context.Background(), sp, file, 5)
			o.Output += fmt.Sprintf("; xcheck %s: %s (%.2fs)", rr.solver, rr.answer, rr.dt)
			if rr.answer == "sat" {
				o.Status = "error"
				o.Output += " SOLVER DISAGREEMENT"
				return
			}
		}
	}
	if r.answer == want {
		o.Status = "discharged"
		return
	}
	o.Status = "failed"
	if want == "unsat" && len(o.Watch) > 0 {
		o.fetchModel(base)
	}
}

func (o *Obligation) fetchModel(base string) {
	if o.Kind == "known-finding-canary" {
		return // expected to fail: nobody reads its model
	}
	// first look for a model with short lists (replayable), if the watches include list lengths; any model otherwise
	hasLen := false
	for _, w := range o.Watch {
		if strings.HasSuffix(w.Name, ".len") {
			hasLen = true
			break
		}
	}
	if hasLen {
		o.smallModel = true
		o.fetchModelOnce(base)
		o.smallModel = false
	}
	if o.Model == nil {
		o.fetchModelOnce(base)
	}
}

func (o *Obligation) fetchModelOnce(base string) {
	txt := o.SMT(true, false)
	file := base + ".model.smt2"
	if err := os.WriteFile(file, []byte(txt), 0o644); err != nil {
		return
	}
	defer os.Remove(file)
	r := runSolver(context.Background(), solvers[0], file, 20)
	if r.answer != "sat" {
		return
	}
	idx := strings.Index(r.out, "sat\n")
	if idx < 0 {
		return
	}
	rest := []string{"sat", r.out[idx+4:]}
	vals := parseGetValue(rest[1])
	o.Model = map[string]string{}
	for i, w := range o.Watch {
		if i < len(vals) {
			o.Model[w.Name] = vals[i]
		}
	}
	litOf := map[string]string{} // model element -> literal
	for j, name := range o.modelExtra {
		k := len(o.Watch) + j
		if k >= len(vals) {
			break
		}
		if strings.HasPrefix(name, "lit#") {
			litOf[vals[k]] = strings.TrimPrefix(name, "lit#")
		} else {
			o.Model[name] = vals[k]
		}
	}
	for _, w := range o.Watch {
		if w.T.Sort == SStr {
			if l, ok := litOf[o.Model[w.Name]]; ok {
				o.Model[w.Name+"#lit"] = l
			}
		}
	}
}

// parseGetValue parses "((t v) (t v) ...)" and returns the v's as strings.
func parseGetValue(s string) []string {
	toks := sexpTokens(s)
	pos := 0
	var parse func() interface{}
	parse = func() interface{} {
		if pos >= len(toks) {
			return nil
		}
		t := toks[pos]
		pos++
		if t == "(" {
			var l []interface{}
			for pos < len(toks) && toks[pos] != ")" {
				l = append(l, parse())
			}
			pos++
			return l
		}
		return t
	}
	top, ok := parse().([]interface{})
	if !ok {
		return nil
	}
	var out []string
	for _, p := range top {
		pair, ok := p.([]interface{})
		if !ok || len(pair) != 2 {
			out = append(out, "?")
			continue
		}
		out = append(out, sexpString(pair[1]))
	}
	return out
}

func sexpString(x interface{}) string {
	switch v := x.(type) {
	case string:
		return v
	case []interface{}:
		// (- 5) => -5
		if len(v) == 2 {
			if s, ok := v[0].(string); ok && s == "-" {
				if n, ok := v[1].(string); ok {
					return "-" + n
				}
			}
		}
		var parts []string
		for _, e := range v {
			parts = append(parts, sexpString(e))
		}
		return "(" + strings.Join(parts, " ") + ")"
	}
	return "?"
}

func sexpTokens(s string) []string {
	var toks []string
	i := 0
	for i < len(s) {
		c := s[i]
		switch {
		case c == '(' || c == ')':
			toks = append(toks, string(c))
			i++
		case c == ' ' || c == '\n' || c == '\t' || c == '\r':
			i++
		case c == '|':
			j := strings.IndexByte(s[i+1:], '|')
			if j < 0 {
				j = len(s) - i - 1
			}
			toks = append(toks, s[i:i+j+2])
			i += j + 2
		case c == '"':
			j := strings.IndexByte(s[i+1:], '"')
			if j < 0 {
				j = len(s) - i - 1
			}
			toks = append(toks, s[i:i+j+2])
			i += j + 2
		default:
			j := i
			for j < len(s) && !strings.ContainsRune("() \n\t\r", rune(s[j])) {
				j++
			}
			toks = append(toks, s[i:j])
			i = j
		}
	}
	return toks
}

func sanitize(s string) string {
	r := strings.NewReplacer("/", "_", " ", "_", "(", "", ")", "", "*", "p", "#", "-", "@", "-", ":", "_")
	s = r.Replace(s)
	if len(s) > 150 {
		s = s[:150]
	}
	return s
}

// DischargeAll runs obligations in parallel on `par` workers.
func DischargeAll(obs []*Obligation, timeoutS int, thorough bool, par int) {
	var wg sync.WaitGroup
	ch := make(chan *Obligation)
	for i := 0; i < par; i++ {
		wg.Add(1)
		go func() {
			defer wg.Done()
			for o := range ch {
				if o.Goal.IsTrue() && o.Expect != "sat" {
					o.Status, o.Solver = "discharged", "simplifier"
					continue
				}
				t := timeoutS
				if o.Kind == "known-finding-canary" && t > 3 {
					t = 3 // a canary is expected not to discharge; do not wait long for it
				}
				if o.Group != "" && t > 5 {
					t = 5 // reachability covers: one satisfiable member is enough, undecided members are not waited for
				}
				o.Discharge(t, thorough)
			}
		}()
	}
	for _, o := range obs {
		ch <- o
	}
	close(ch)
	wg.Wait()
	// second chance without contention: the first pass runs up to `par` obligations (three solver processes each) at a
	// time, so an obligation that needs a few seconds alone can run into its limit on a loaded machine. Whatever is still
	// undecided is tried again, one at a time. (A genuinely failing obligation comes back `sat`, not undecided, or stays
	// undecided here too; the number of retries is capped.)
	retried := 0
	for _, o := range obs {
		if o.Status != "undecided" || o.Group != "" || o.Kind == "known-finding-canary" || o.Expect == "sat" || retried >= 8 {
			continue
		}
		retried++
		first := o.Output
		o.Model, o.Relaxed = nil, false
		o.Discharge(timeoutS, thorough)
		o.Output = o.Output + " [retried alone; first pass: " + first + "]"
	}
	okGroup := map[string]bool{}
	for _, o := range obs {
		if o.Group != "" && o.Status == "discharged" {
			okGroup[o.Group] = true
		}
	}
	for _, o := range obs {
		if o.Group != "" && o.Status != "discharged" && okGroup[o.Group] {
			o.Status, o.Output = "discharged", "group "+o.Group+": another member is satisfiable ("+o.Status+" here)"
		}
	}
}

func sortObligations(obs []*Obligation) {
	sort.SliceStable(obs, func(i, j int) bool { return obs[i].Name < obs[j].Name })
}
