package main

// Calls: contract at the call site, library model, or the inlined real body.

import (
	"fmt"
	"go/types"
	"strings"

	"golang.org/x/tools/go/ssa"
)

const maxInlineDepth = 7

type LibCtx struct {
	x    *Exec
	fr   *Frame
	st   *State
	in   ssa.Instruction
	name string
	sig  *types.Signature
}

// LibFn models a dependency function. It returns the result value (a VTuple
// for multi-result functions, nil for none).
type LibFn func(c *LibCtx, args []*Val) *Val

func (x *Exec) call(fr *Frame, st *State, in ssa.Instruction, c *ssa.CallCommon, k func(st *State, res *Val)) {
	var args []*Val
	for _, a := range c.Args {
		args = append(args, x.get(fr, st, a))
	}
	sig := c.Signature()
	resultOf := func(res []*Val) *Val {
		switch len(res) {
		case 0:
			return nil
		case 1:
			return res[0]
		}
		return &Val{K: VTuple, Typ: sig.Results(), Fields: res}
	}
	if c.IsInvoke() {
		recv := x.get(fr, st, c.Value)
		name := c.Method.FullName()
		if f := lookupLib(name); f != nil {
			x.libUsed[name] = true
			res := f(&LibCtx{x, fr, st, in, name, sig}, append([]*Val{recv}, args...))
			x.finishLib(st, res)
			k(st, res)
			return
		}
		// closed-world dispatch on the repo's own interfaces
		if namedInRepo(c.Value.Type()) && recv.K == VIface && len(x.implementers(types.Unalias(c.Value.Type()).Underlying().(*types.Interface))) > 0 {
			it := types.Unalias(c.Value.Type()).Underlying().(*types.Interface)
			impls := x.implementers(it)
			x.mustNot(fr, st, in, Eq(recv.Tag, Num(0)), "nil-interface-call")
			var known []*Term
			for _, T := range impls {
				known = append(known, Eq(recv.Tag, Num(int64(typeID(T)))))
			}
			// closed world: a non-nil value of this interface has one of the repo's implementing types
			st.Assume(Or(known...))
			x.note("closed-world interface " + typeString(c.Value.Type()))
			for i, T := range impls {
				st2 := st
				fr2 := fr
				if i < len(impls)-1 {
					st2 = st.Clone()
					fr2 = fr.clone()
				}
				st2.Assume(known[i])
				ms := x.P.Prog.MethodSets.MethodSet(T)
				sel := ms.Lookup(c.Method.Pkg(), c.Method.Name())
				fn := x.P.Prog.MethodValue(sel)
				if fn == nil {
					x.note("no method value for " + typeString(T) + "." + c.Method.Name())
					continue
				}
				rv := x.unbox(st2, recv, T)
				// method may be declared on the value type while T is a pointer, or vice versa
				a2 := append([]*Val{x.adaptRecv(fr2, st2, in, rv, fn)}, args...)
				x.callStatic(fr2, st2, in, fn, a2, sig, k)
			}
			return
		}
		if recv.K == VIface {
			x.mustNot(fr, st, in, Eq(recv.Tag, Num(0)), "nil-interface-call")
		}
		x.note("unmodelled interface call " + name)
		x.havocPointees(st, args, name)
		k(st, resultOf(x.freshResultsAssumed(st, sig)))
		return
	}
	if fn := c.StaticCallee(); fn != nil {
		if fn.Signature.Recv() == nil && len(fn.FreeVars) > 0 {
			// direct call of a closure value
			cl := x.get(fr, st, c.Value)
			x.callClosure(fr, st, in, cl, args, sig, k)
			return
		}
		x.callStatic(fr, st, in, fn, args, sig, k)
		return
	}
	if b, ok := c.Value.(*ssa.Builtin); ok {
		res := x.builtin(fr, st, in, b, args, c)
		k(st, res)
		return
	}
	fv := x.get(fr, st, c.Value)
	x.callClosure(fr, st, in, fv, args, sig, k)
}

func (x *Exec) adaptRecv(fr *Frame, st *State, in ssa.Instruction, rv *Val, fn *ssa.Function) *Val {
	want := fn.Signature.Recv().Type()
	_, wantPtr := want.Underlying().(*types.Pointer)
	if rv.K == VPtr && !wantPtr {
		return x.load(fr, st, in, rv)
	}
	return rv
}

func (x *Exec) callClosure(fr *Frame, st *State, in ssa.Instruction, fv *Val, args []*Val, sig *types.Signature, k func(st *State, res *Val)) {
	if fv.K == VFunc && fv.Lib != "" {
		if f := lookupLib(fv.Lib); f != nil {
			x.libUsed[fv.Lib] = true
			res := f(&LibCtx{x, fr, st, in, fv.Lib, sig}, args)
			x.finishLib(st, res)
			k(st, res)
			return
		}
		x.note("unmodelled function value " + fv.Lib)
		k(st, tupleOf(sig, x.freshResultsAssumed(st, sig)))
		return
	}
	if fv.K == VFunc && fv.Fn != nil {
		if len(fv.Fn.Blocks) > 0 && fr.depth < maxInlineDepth {
			x.inlined[fv.Fn.String()] = true
			x.runInline(fr, st, in, fv.Fn, args, fv.Free, sig, k)
			return
		}
		x.callStatic(fr, st, in, fv.Fn, args, sig, k)
		return
	}
	x.note("call of an unknown function value in " + fr.fn.Name())
	k(st, tupleOf(sig, x.freshResultsAssumed(st, sig)))
}

func tupleOf(sig *types.Signature, res []*Val) *Val {
	switch len(res) {
	case 0:
		return nil
	case 1:
		return res[0]
	}
	return &Val{K: VTuple, Typ: sig.Results(), Fields: res}
}

func (x *Exec) freshResultsAssumed(st *State, sig *types.Signature) []*Val {
	res := x.freshResults(sig)
	for _, r := range res {
		for _, wf := range wellFormed(r) {
			st.Assume(wf)
		}
		x.assumeAllocated(st, r)
	}
	return res
}

func (x *Exec) finishLib(st *State, res *Val) {
	if res == nil {
		return
	}
	x.defineVal(st, res)
	for _, wf := range wellFormed(res) {
		st.Assume(wf)
	}
}

func termSize(t *Term, limit int) int {
	n := 1
	for _, a := range t.Args {
		n += termSize(a, limit-n)
		if n > limit {
			return n
		}
	}
	return n
}

// define names a non-trivial term by a fresh constant (an SMT-level let), so that
// later terms stay small and share structure.
func (x *Exec) define(st *State, t *Term, hint string) *Term {
	if t == nil || t.K != TApp || termSize(t, 6) <= 5 {
		return t
	}
	c := Const(freshName("d:"+hint), t.Sort)
	st.PC = append(st.PC, Eq(c, t))
	return c
}

func (x *Exec) defineVal(st *State, v *Val) {
	switch v.K {
	case VInt, VBool, VStr, VTime, VBig, VCoins:
		v.T = x.define(st, v.T, "r")
		if v.K == VBig {
			v.Nil = x.define(st, v.Nil, "n")
		}
	case VTuple, VStruct:
		for _, f := range v.Fields {
			x.defineVal(st, f)
		}
	}
}

// assumeAllocated: every reference held by a value refers to an already allocated object.
func (x *Exec) assumeAllocated(st *State, v *Val) {
	switch v.K {
	case VPtr:
		if v.Ptr != nil && v.Ptr.Base == PObj && v.T != nil && v.T.K != TNum {
			st.Assume(Lt(v.T, st.NextRef))
		}
	case VSlice, VMap:
		if v.T != nil && v.T.K != TNum {
			st.Assume(Lt(v.T, st.NextRef))
		}
	case VStruct, VTuple:
		for _, f := range v.Fields {
			x.assumeAllocated(st, f)
		}
	}
}

func (x *Exec) onStack(fr *Frame, fn *ssa.Function) bool {
	for f := fr; f != nil; f = f.caller {
		if f.fn == fn {
			return true
		}
	}
	return false
}

func (x *Exec) callStatic(fr *Frame, st *State, in ssa.Instruction, fn *ssa.Function, args []*Val, sig *types.Signature, k func(st *State, res *Val)) {
	name := fn.String()
	key := contractKeyOf(fn)
	if fc := x.P.Specs.Contracts[key]; fc != nil && key != "" && !fc.Inline {
		x.callContract(fr, st, in, fc, fn, args, k)
		return
	}
	if f := lookupLib(name); f != nil {
		x.libUsed[name] = true
		res := f(&LibCtx{x, fr, st, in, name, sig}, args)
		x.finishLib(st, res)
		k(st, res)
		return
	}
	if inRepo(fn) && len(fn.Blocks) > 0 {
		if x.onStack(fr, fn) {
			x.note("recursive call without a contract: " + name)
			k(st, tupleOf(sig, x.freshResultsAssumed(st, sig)))
			return
		}
		if fr.depth >= maxInlineDepth {
			x.note("inline depth exceeded at " + name)
			k(st, tupleOf(sig, x.freshResultsAssumed(st, sig)))
			return
		}
		x.inlined[name] = true
		x.runInline(fr, st, in, fn, args, nil, sig, k)
		return
	}
	x.note("unmodelled call " + name)
	x.havocPointees(st, args, name)
	k(st, tupleOf(sig, x.freshResultsAssumed(st, sig)))
}

// havocPointees: a callee without model may write through the pointers it is given: the objects its pointer arguments point
// to directly get unknown contents (objects reachable only through further pointers are not touched: stated abstraction).
func (x *Exec) havocPointees(st *State, args []*Val, callee string) {
	// decoders (GetParamSet, Unmarshal...) fill their destination with objects they allocate: the references stored directly in
	// the destination are new (stated library assumption; what hangs below them stays unknown)
	decoder := false
	for _, n := range []string{".GetParamSet", ".Unmarshal", ".MustUnmarshal", ".UnmarshalJSON", ".MustUnmarshalJSON", ".UnmarshalInterface"} {
		if strings.HasSuffix(callee, n) {
			decoder = true
		}
	}
	var lo *Term
	if decoder {
		lo = st.NextRef
		nr := Const(freshName("ref:next"), SInt)
		st.Assume(Ge(nr, lo))
		st.NextRef = nr
	}
	decoded := func(nv *Val) {
		if !decoder || nv == nil || nv.Typ == nil {
			return
		}
		ls := nv.leaves()
		for i, l := range flatten(nv.Typ) {
			if l.Ref && i < len(ls) && ls[i] != nil {
				st.Assume(Or(Eq(ls[i], Num(0)), Ge(ls[i], lo)))
			}
		}
		x.note("destination of decoder " + callee + ": references stored in it are taken to be newly allocated")
	}
	for _, a := range args {
		if a != nil && a.K == VIface && a.Tag != nil && a.Tag.K == TNum {
			// a pointer passed as an interface value (e.g. a ParamSet): the object behind it
			if T := typeIDTypes[int(a.Tag.Num.Int64())]; T != nil && classify(T) == VPtr {
				if et := ptrElem(T); et != nil && len(flatten(et)) > 0 {
					nv := x.freshLike(st, &Val{Typ: et}, "out")
					decoded(nv)
					if err := st.storeObj(et, a.T, "", nv); err == nil {
						x.note("out-parameter of unmodelled call " + callee + ": pointee set to an unknown value")
					}
				}
			}
			continue
		}
		if a == nil || a.K != VPtr || a.Ptr == nil || len(a.Ptr.Path) != 0 {
			continue
		}
		switch a.Ptr.Base {
		case PCell:
			if t, ok := st.CellTypes[a.Ptr.Cell]; ok {
				st.Cells[a.Ptr.Cell] = x.freshLike(st, &Val{Typ: t}, "out")
				decoded(st.Cells[a.Ptr.Cell])
				x.note("out-parameter of unmodelled call " + callee + ": pointee set to an unknown value")
			}
		case PObj:
			// (any pointee type: a decoder fills a map, a slice or a scalar behind the pointer just as well as a struct)
			if a.Ptr.Root != nil && len(flatten(a.Ptr.Root)) > 0 {
				nv := x.freshLike(st, &Val{Typ: a.Ptr.Root}, "out")
				decoded(nv)
				if err := st.storeObj(a.Ptr.Root, a.T, "", nv); err == nil {
					x.note("out-parameter of unmodelled call " + callee + ": pointee set to an unknown value")
				}
			}
		}
	}
}

func (x *Exec) runInline(fr *Frame, st *State, in ssa.Instruction, fn *ssa.Function, args []*Val, free []*Val, sig *types.Signature, k func(st *State, res *Val)) {
	label := fn.Name()
	if in != nil {
		label = x.siteLabel(fr, in, instrWhat(in))
	}
	prefix := label + ">"
	if len(fn.Blocks) == 0 {
		k(st, tupleOf(sig, x.freshResultsAssumed(st, sig)))
		return
	}
	nf := &Frame{fn: fn, regs: map[ssa.Value]*Val{}, depth: fr.depth + 1, loops: map[*ssa.BasicBlock]*loopCtx{}, prefix: prefix, caller: fr}
	for i, p := range fn.Params {
		if i < len(args) {
			nf.regs[p] = args[i]
		}
	}
	for i, fv := range fn.FreeVars {
		if i < len(free) {
			nf.regs[fv] = free[i]
		}
	}
	if key := contractKeyOf(fn); key != "" {
		nf.contract = x.P.Specs.Contracts[key]
	}
	nf.ret = func(st2 *State, res []*Val) { k(st2, tupleOf(fn.Signature, res)) }
	x.runBlock(nf, st, fn.Blocks[0], nil)
}

// contractEnv binds receiver / parameter names of a contract to argument values.
func contractEnv(x *Exec, fc *FuncContract, fn *ssa.Function, args []*Val, st *State) *SpecEnv {
	env := &SpecEnv{x: x, st: st, vars: map[string]*Val{}, pkg: fc.Pkg}
	i := 0
	if fn.Signature.Recv() != nil {
		if fc.RecvName != "" {
			env.vars[fc.RecvName] = args[0]
		}
		i = 1
	}
	if len(fc.Params) != len(args)-i {
		sfail("contract %s lists %d parameters, function has %d", fc.Key(), len(fc.Params), len(args)-i)
	}
	for j, n := range fc.Params {
		if n != "_" {
			env.vars[n] = args[i+j]
		}
	}
	return env
}

func (x *Exec) callContract(fr *Frame, st *State, in ssa.Instruction, fc *FuncContract, fn *ssa.Function, args []*Val, k func(st *State, res *Val)) {
	x.usedCtr[fc.Key()] = true
	if fc.Trusted {
		x.trusted[fc.Key()] = true
	}
	label := fn.Name()
	if in != nil {
		label = x.siteLabel(fr, in, instrWhat(in))
	}
	env := contractEnv(x, fc, fn, args, st)
	for i, r := range fc.Requires {
		g := x.safeEvalBool(env, r.E, fc.Key()+" requires")
		x.emit("pre", fmt.Sprintf("%s:requires#%d", label, i+1), st, g, r.Text)
		st.Assume(g)
	}
	if fc.Panics != nil {
		c := x.safeEvalBool(env, fc.Panics, fc.Key()+" panics_when")
		x.mustNot(fr, st, in, c, "callee-panics")
	}
	if x.panicMode {
		// panic-freedom is modular too: the callee must itself be checked (or be an assumed accessor), under its panic preconditions
		checked := fc.Trusted || fc.NoPanic
		for _, pp := range x.panicProps {
			if hasProp(fc.Props, pp) {
				checked = true
			}
		}
		if !checked {
			x.emit("no-panic", label+":callee-not-panic-checked", st, FalseT, "callee "+fc.Key()+" has a contract but is not under a no-panic check")
		}
		for i, r := range fc.PanicRequires {
			g := x.safeEvalBool(env, r.E, fc.Key()+" panic_requires")
			x.emit("pre", fmt.Sprintf("%s:panic_requires#%d", label, i+1), st, g, r.Text)
			st.Assume(g)
		}
	}
	// recursion: termination measure must decrease
	if fn == x.top && fc.Decr != nil && x.topDecr0 != nil {
		d := toInt(env.eval(fc.Decr))
		x.emit("decreases", label, st, And(Ge(x.topDecr0, Num(0)), Lt(d, x.topDecr0)), "recursive call")
	}
	old := st.Clone()
	x.checkCalleeModifies(fr, st, in, env, fc)
	x.havocModifies(st, env, fc)
	// the callee may have allocated
	nr := Const(freshName("ref:next"), SInt)
	st.Assume(Ge(nr, st.NextRef))
	st.NextRef = nr
	if len(fc.Modifies) > 0 {
		st.assumeHeapWF()
	}
	res := x.freshResultsAssumed(st, fn.Signature)
	post := contractEnv(x, fc, fn, args, st)
	post.old = old
	if len(fc.Results) > 0 {
		if len(fc.Results) != len(res) {
			sfail("contract %s lists %d results, function has %d", fc.Key(), len(fc.Results), len(res))
		}
		for i, n := range fc.Results {
			if n != "_" {
				post.vars[n] = res[i]
			}
		}
	}
	for _, e := range fc.Ensures {
		st.Assume(x.safeEvalBool(post, e.E, fc.Key()+" ensures"))
	}
	k(st, tupleOf(fn.Signature, res))
}

func (x *Exec) safeEvalBool(env *SpecEnv, e SExpr, what string) (t *Term) {
	defer func() {
		if r := recover(); r != nil {
			if se, ok := r.(specError); ok {
				panic(fmt.Errorf("contract error in %s: %s", what, se.msg))
			}
			panic(r)
		}
	}()
	return env.evalBool(e)
}

// havocModifies replaces every location named in the modifies clause by fresh values.
func (x *Exec) havocModifies(st *State, env *SpecEnv, fc *FuncContract) {
	for _, m := range fc.Modifies {
		x.havocLoc(st, env, m)
	}
}

func (x *Exec) havocLoc(st *State, env *SpecEnv, m SExpr) {
	switch n := m.(type) {
	case SIdent:
		if strings.HasPrefix(n.Name, "$") {
			g, ok := st.Ghost[n.Name[1:]]
			if !ok {
				sfail("modifies: unknown ghost %s", n.Name)
			}
			st.Ghost[n.Name[1:]] = x.freshLike(st, g, "ghost:"+n.Name[1:])
			return
		}
		// a pointer parameter: the whole pointee
		x.havocPointee(st, env.eval(n))
		return
	case SUnary:
		if n.Op == "*" {
			x.havocPointee(st, env.eval(n.X))
			return
		}
	case SSelect:
		base := env.eval(n.X)
		if base.K == VPtr {
			_, t := pathPrefix(base.Ptr.Root, base.Ptr.Path)
			i, ok := fieldIndex(t, n.Field)
			if !ok {
				sfail("modifies: no field %s", n.Field)
			}
			np := *base
			pi := *base.Ptr
			pi.Path = append(append([]int(nil), base.Ptr.Path...), i)
			np.Ptr = &pi
			x.havocPointee(st, &np)
			return
		}
	case SCall:
		if id, ok := n.Fun.(SIdent); ok && id.Name == "elems" {
			s := env.eval(n.Args[0])
			if s.K == VMap {
				// a map parameter: its key set and values
				if hk, has, ok := x.mapArrays(st, s.Typ); ok {
					ks, _ := x.mapKeySort(s.Typ)
					st.setHeap(hk, Store(has, s.T, Const(freshName("maphas"), SArr(ks, SBool))))
					_, et := mapTypes(s.Typ)
					for _, l := range flatten(et) {
						key, arr := x.mapValArr(st, s.Typ, l)
						st.setHeap(key, Store(arr, s.T, Const(freshName("mapval"), SArr(ks, l.Sort))))
					}
				}
				return
			}
			if s.K != VSlice {
				sfail("modifies elems(x): x must be a slice or a map")
			}
			et := sliceElem(s.Typ)
			for _, l := range flatten(et) {
				key, h := st.heapArr(et, l, true)
				row := Const(freshName("row"), SArr(SInt, l.Sort))
				st.setHeap(key, Store(h, s.T, row))
			}
			return
		}
		if id, ok := n.Fun.(SIdent); ok && id.Name == "heap" {
			s, ok := n.Args[0].(SStrLit)
			if !ok {
				sfail("modifies heap(\"T\")")
			}
			t := x.P.resolveType(env.pkg, s.S)
			for _, l := range flatten(t) {
				key, h := st.heapArr(t, l, false)
				st.Heap[key] = Const(freshName("H:"+key), h.Sort)
			}
			return
		}
	}
	sfail("unsupported modifies target")
}

func (x *Exec) freshLike(st *State, v *Val, name string) *Val {
	var nv *Val
	if v.Typ != nil {
		nv = freshVal(v.Typ, name, true)
	} else {
		nv = valOfSort(Const(freshName(name), v.T.Sort))
	}
	for _, wf := range wellFormed(nv) {
		st.Assume(wf)
	}
	x.assumeAllocated(st, nv)
	return nv
}

func (x *Exec) havocPointee(st *State, p *Val) {
	if p.K != VPtr {
		sfail("modifies target is not a pointer")
	}
	_, t := pathPrefix(p.Ptr.Root, p.Ptr.Path)
	nv := x.freshLike(st, &Val{Typ: t}, "hv")
	pi := p.Ptr
	prefix, _ := pathPrefix(pi.Root, pi.Path)
	switch pi.Base {
	case PObj:
		_ = st.storeObj(pi.Root, p.T, prefix, nv)
	case PCell:
		st.Cells[pi.Cell] = withSub(st.Cells[pi.Cell], pi.Path, nv)
	case PElem:
		_ = st.storeElem(pi.Root, pi.Arr, pi.Idx, prefix, nv)
	}
}

// ---------- builtins ----------

func (x *Exec) builtin(fr *Frame, st *State, in ssa.Instruction, b *ssa.Builtin, args []*Val, c *ssa.CallCommon) *Val {
	switch b.Name() {
	case "len":
		a := args[0]
		switch a.K {
		case VSlice:
			return intVal(a.Len, types.Typ[types.Int])
		case VStr:
			return intVal(StrLen(a.T), types.Typ[types.Int])
		case VCoins:
			// canonical-form assumption: len(c) = 0 iff every amount is zero
			n := CoinsLen(a.T)
			st.Assume(Ge(n, Num(0)))
			st.Assume(Le(n, Num(1000000)))
			st.Assume(Eq(Eq(n, Num(0)), Eq(a.T, zeroCoins)))
			x.note("len(sdk.Coins): canonical-form assumption (no zero entries)")
			return intVal(n, types.Typ[types.Int])
		case VMap:
			n := Const(freshName("maplen"), SInt)
			st.Assume(Ge(n, Num(0)))
			return intVal(n, types.Typ[types.Int])
		}
		x.note("len of unmodelled value " + typeString(c.Args[0].Type()))
		n := Const(freshName("len"), SInt)
		st.Assume(Ge(n, Num(0)))
		return intVal(n, types.Typ[types.Int])
	case "cap":
		n := Const(freshName("cap"), SInt)
		st.Assume(Ge(n, Num(0)))
		if args[0].K == VSlice {
			st.Assume(Ge(n, args[0].Len))
		}
		return intVal(n, types.Typ[types.Int])
	case "append":
		s, e := args[0], args[1]
		if s.K == VStr {
			// append([]byte, bytes...) is concatenation
			if e.K == VStr {
				return strVal(StrCat(s.T, e.T), s.Typ)
			}
		}
		if s.K != VSlice || e.K != VSlice {
			x.note("append on unmodelled slices " + typeString(c.Args[0].Type()))
			r := freshVal(c.Args[0].Type(), "app", true)
			for _, wf := range wellFormed(r) {
				st.Assume(wf)
			}
			return r
		}
		// append(s, e...) where e was built by the compiler as a 1-element slice literal, or a general slice
		if e.Len.K == TNum && e.Len.Num.IsInt64() && e.Len.Num.Int64() <= 8 {
			r := s
			et := sliceElem(s.Typ)
			for i := int64(0); i < e.Len.Num.Int64(); i++ {
				ev := st.loadElem(et, e.T, ElemIdx(e.Off, Num(i)), "", et)
				r = x.appendOne(st, r, ev)
			}
			return r
		}
		// general case: fresh array, prefix = s, suffix = e
		et := sliceElem(s.Typ)
		ref := st.alloc()
		for _, l := range flatten(et) {
			key, h := st.heapArr(et, l, true)
			row := Const(freshName("app"), SArr(SInt, l.Sort))
			j := Bound("j", SInt)
			st.Assume(Forall([]*Term{j}, Implies(And(Ge(j, Num(0)), Lt(j, s.Len)), Eq(Select(row, j), Select(Select(h, s.T), ElemIdx(s.Off, j)))), []*Term{Select(row, j)}))
			st.Assume(Forall([]*Term{j}, Implies(And(Ge(j, Num(0)), Lt(j, e.Len)), Eq(Select(row, Add(s.Len, j)), Select(Select(h, e.T), ElemIdx(e.Off, j)))), []*Term{Select(Select(h, e.T), ElemIdx(e.Off, j))}))
			st.setHeap(key, Store(h, ref, row))
		}
		return &Val{K: VSlice, Typ: s.Typ, T: ref, Off: Num(0), Len: Add(s.Len, e.Len)}
	case "copy":
		x.note("builtin copy in " + fr.fn.Name())
		n := Const(freshName("copied"), SInt)
		st.Assume(Ge(n, Num(0)))
		return intVal(n, types.Typ[types.Int])
	case "delete":
		m, kv := args[0], args[1]
		hk, has, ok := x.mapArrays(st, c.Args[0].Type())
		if ok && m.K == VMap {
			st.setHeap(hk, Store(has, m.T, Store(Select(has, m.T), kv.leaves()[0], FalseT)))
		} else {
			x.note("delete on unmodelled map")
		}
		return nil
	case "ssa:wrapnilchk":
		x.nilCheck(fr, st, in, args[0])
		return args[0]
	case "print", "println":
		return nil
	}
	x.note("unmodelled builtin " + b.Name())
	if v, ok := in.(ssa.Value); ok {
		return freshVal(v.Type(), "bi", true)
	}
	return nil
}
