package main

// Symbolic values: every Go value is a tree of SMT leaf terms shaped by its type.

import (
	"hash/fnv"
	"fmt"
	"go/types"
	"strings"

	"golang.org/x/tools/go/ssa"
)

type VK int

const (
	VInt VK = iota
	VBool
	VStr    // string, []byte, sdk.AccAddress: uninterpreted sort Str
	VBig    // math.Int, sdk.Dec: (nil flag, mathematical integer; Dec scaled by 10^18)
	VTime   // time.Time: integer nanoseconds since the epoch
	VPtr    // pointer: see PtrInfo
	VSlice  // (arr ref, off, len)
	VStruct // flattened fields
	VIface  // (type tag, payload)
	VMap    // ref
	VCoins  // sdk.Coins / sdk.DecCoins: (Array Str Int), DecCoins scaled by 10^18
	VFunc   // statically known function or closure
	VTuple
	VOpaque // not modelled: carries no information
)

const (
	PObj    = iota // whole heap object: ref term T (0 = nil)
	PCell          // address-taken local: cell id
	PElem          // element of a slice backing array: (Arr, Idx)
	PGlobal        // package-level variable
)

type PtrInfo struct {
	Base   int
	Cell   int
	Arr    *Term
	Idx    *Term
	Global *ssa.Global
	Path   []int      // field path from the base object to the addressed sub-object
	Root   types.Type // type of the base object (the cell / heap object / slice element)
}

type Val struct {
	K      VK
	Typ    types.Type
	T      *Term
	Nil    *Term // VBig
	Off    *Term // VSlice
	Len    *Term // VSlice
	Tag    *Term // VIface
	Fields []*Val
	Ptr    *PtrInfo
	Fn     *ssa.Function
	Free   []*Val
	Lib    string // VFunc naming a library-model function
	IsDec  bool   // VBig / VCoins: scaled by 10^18
}

type Leaf struct {
	Path string
	Sort string
	Ref  bool // holds a heap reference (pointer, slice backing array, map)
}

var sortStrArrInt = SArr(SStr, SInt)

func typeString(t types.Type) string { return types.TypeString(t, nil) }

func namedName(t types.Type) string {
	if n, ok := t.(*types.Named); ok {
		if n.Obj().Pkg() != nil {
			return n.Obj().Pkg().Path() + "." + n.Obj().Name()
		}
		return n.Obj().Name()
	}
	if a, ok := t.(*types.Alias); ok {
		return namedName(types.Unalias(a))
	}
	return ""
}

const (
	tyInt      = "cosmossdk.io/math.Int"
	tyDec      = "github.com/cosmos/cosmos-sdk/types.Dec"
	tyTime     = "time.Time"
	tyCoins    = "github.com/cosmos/cosmos-sdk/types.Coins"
	tyDecCoins = "github.com/cosmos/cosmos-sdk/types.DecCoins"
	tyAccAddr  = "github.com/cosmos/cosmos-sdk/types.AccAddress"
	tyContext  = "github.com/cosmos/cosmos-sdk/types.Context"
)

var opaqueNamed = map[string]bool{
	tyContext:              true,
	"math/big.Int":         true,
	"sync.Mutex":           true,
	"sync.RWMutex":         true,
	"crypto/x509.Certificate": true,
}

func classify(t types.Type) VK {
	t = types.Unalias(t)
	switch namedName(t) {
	case tyInt, tyDec:
		return VBig
	case tyTime:
		return VTime
	case tyCoins, tyDecCoins:
		return VCoins
	case tyAccAddr:
		return VStr
	}
	if opaqueNamed[namedName(t)] {
		return VOpaque
	}
	switch u := t.Underlying().(type) {
	case *types.Basic:
		switch {
		case u.Info()&types.IsBoolean != 0:
			return VBool
		case u.Info()&types.IsInteger != 0:
			return VInt
		case u.Info()&types.IsString != 0:
			return VStr
		case u.Kind() == types.UnsafePointer:
			return VOpaque
		case u.Kind() == types.UntypedNil:
			return VOpaque
		}
		return VOpaque // floats, complex
	case *types.Pointer:
		return VPtr
	case *types.Slice:
		if b, ok := u.Elem().Underlying().(*types.Basic); ok && (b.Kind() == types.Byte || b.Kind() == types.Uint8) {
			return VStr
		}
		return VSlice
	case *types.Struct:
		return VStruct
	case *types.Interface:
		return VIface
	case *types.Map:
		return VMap
	case *types.Signature:
		return VFunc
	case *types.Tuple:
		return VTuple
	case *types.Array:
		return VOpaque
	case *types.Chan:
		return VOpaque
	}
	return VOpaque
}

func isDecType(t types.Type) bool {
	n := namedName(types.Unalias(t))
	return n == tyDec || n == tyDecCoins
}

// intRange returns the value range of a Go integer type (nil,nil for non-integers).
func intRange(t types.Type) (lo, hi *Term) {
	if t == nil {
		return nil, nil
	}
	b, ok := types.Unalias(t).Underlying().(*types.Basic)
	if !ok || b.Info()&types.IsInteger == 0 {
		return nil, nil
	}
	switch b.Kind() {
	case types.Int, types.Int64, types.UntypedInt:
		return NumStr("-9223372036854775808"), NumStr("9223372036854775807")
	case types.Int32, types.UntypedRune:
		return Num(-2147483648), Num(2147483647)
	case types.Int16:
		return Num(-32768), Num(32767)
	case types.Int8:
		return Num(-128), Num(127)
	case types.Uint, types.Uint64, types.Uintptr:
		return Num(0), NumStr("18446744073709551615")
	case types.Uint32:
		return Num(0), Num(4294967295)
	case types.Uint16:
		return Num(0), Num(65535)
	case types.Uint8:
		return Num(0), Num(255)
	}
	return nil, nil
}

var leafCache = map[string][]Leaf{}

// flatten lists the SMT leaves of a type in a fixed order.
func flatten(t types.Type) []Leaf {
	key := typeString(t)
	if l, ok := leafCache[key]; ok {
		return l
	}
	leafCache[key] = nil // cut recursion (recursive value types cannot exist in Go)
	var out []Leaf
	switch classify(t) {
	case VTime:
		out = []Leaf{{".t", SInt, false}}
	case VInt:
		out = []Leaf{{"", SInt, false}}
	case VPtr, VMap:
		out = []Leaf{{"", SInt, true}}
	case VBool:
		out = []Leaf{{"", SBool, false}}
	case VStr:
		out = []Leaf{{"", SStr, false}}
	case VBig:
		out = []Leaf{{".nil", SBool, false}, {".v", SInt, false}}
	case VSlice:
		out = []Leaf{{".arr", SInt, true}, {".off", SInt, false}, {".len", SInt, false}}
	case VIface:
		out = []Leaf{{".tag", SInt, false}, {".pl", SInt, false}}
	case VCoins:
		out = []Leaf{{"", sortStrArrInt, false}}
	case VStruct:
		st := types.Unalias(t).Underlying().(*types.Struct)
		for i := 0; i < st.NumFields(); i++ {
			for _, l := range flatten(st.Field(i).Type()) {
				out = append(out, Leaf{fmt.Sprintf(".%d%s", i, l.Path), l.Sort, l.Ref})
			}
		}
	case VTuple:
		tu := t.(*types.Tuple)
		for i := 0; i < tu.Len(); i++ {
			for _, l := range flatten(tu.At(i).Type()) {
				out = append(out, Leaf{fmt.Sprintf(".%d%s", i, l.Path), l.Sort, l.Ref})
			}
		}
	case VFunc, VOpaque:
		out = nil
	}
	leafCache[key] = out
	return out
}

// leaves returns the leaf terms of a value, in flatten order.
func (v *Val) leaves() []*Term {
	switch v.K {
	case VInt, VBool, VStr, VTime, VMap, VCoins, VArr:
		return []*Term{v.T}
	case VPtr:
		if v.Ptr.Base != PObj || len(v.Ptr.Path) != 0 {
			return []*Term{nil} // interior / cell pointer: not storable
		}
		return []*Term{v.T}
	case VBig:
		return []*Term{v.Nil, v.T}
	case VSlice:
		return []*Term{v.T, v.Off, v.Len}
	case VIface:
		return []*Term{v.Tag, v.T}
	case VStruct, VTuple:
		var out []*Term
		for _, f := range v.Fields {
			out = append(out, f.leaves()...)
		}
		return out
	}
	return nil
}

// mkVal rebuilds a value of type t from leaf terms (consumes from *ls).
func mkVal(t types.Type, ls *[]*Term) *Val {
	take := func() *Term { x := (*ls)[0]; *ls = (*ls)[1:]; return x }
	k := classify(t)
	v := &Val{K: k, Typ: t, IsDec: isDecType(t)}
	switch k {
	case VInt, VBool, VStr, VTime, VMap, VCoins:
		v.T = take()
	case VPtr:
		v.T = take()
		v.Ptr = &PtrInfo{Base: PObj, Root: types.Unalias(t).Underlying().(*types.Pointer).Elem()}
	case VBig:
		v.Nil = take()
		v.T = take()
	case VSlice:
		v.T = take()
		v.Off = take()
		v.Len = take()
	case VIface:
		v.Tag = take()
		v.T = take()
	case VStruct:
		st := types.Unalias(t).Underlying().(*types.Struct)
		for i := 0; i < st.NumFields(); i++ {
			v.Fields = append(v.Fields, mkVal(st.Field(i).Type(), ls))
		}
	case VTuple:
		tu := t.(*types.Tuple)
		for i := 0; i < tu.Len(); i++ {
			v.Fields = append(v.Fields, mkVal(tu.At(i).Type(), ls))
		}
	}
	return v
}

var freshCounter = 0

func freshName(hint string) string {
	freshCounter++
	return fmt.Sprintf("%s!%d", hint, freshCounter)
}

// freshVal builds a fully symbolic value of type t whose leaves are named
// <name><leafpath>; if uniq is set a counter suffix keeps names distinct.
func freshVal(t types.Type, name string, uniq bool) *Val {
	if uniq {
		name = freshName(name)
	}
	var ls []*Term
	for _, l := range flatten(t) {
		ls = append(ls, Const(name+l.Path, l.Sort))
	}
	return mkVal(t, &ls)
}

// zeroVal is Go's zero value of type t.
func zeroVal(t types.Type) *Val {
	var ls []*Term
	for _, l := range flatten(t) {
		ls = append(ls, zeroLeaf(l))
	}
	return mkVal(t, &ls)
}

var emptyStr = Const("str:", SStr)
var zeroCoins = zeroCoinsT

func zeroLeaf(l Leaf) *Term {
	switch l.Sort {
	case SInt:
		if strings.HasSuffix(l.Path, ".t") {
			return timeZero // zero time.Time is January 1, year 1 UTC
		}
		return Num(0)
	case SBool:
		if strings.HasSuffix(l.Path, ".nil") {
			return TrueT // zero math.Int / sdk.Dec has a nil big.Int
		}
		return FalseT
	case SStr:
		return emptyStr
	case sortStrArrInt:
		return zeroCoins
	}
	panic("zeroLeaf: sort " + l.Sort)
}

// wellFormed returns the facts every value of type t satisfies (integer
// ranges, non-negative lengths and refs).
func wellFormed(v *Val) []*Term {
	var out []*Term
	switch v.K {
	case VInt:
		if lo, hi := intRange(v.Typ); lo != nil && v.T.K != TNum {
			out = append(out, Le(lo, v.T), Le(v.T, hi))
		}
	case VPtr, VMap:
		if v.T != nil && v.T.K != TNum {
			out = append(out, Ge(v.T, Num(0)))
		}
	case VSlice:
		out = append(out, Ge(v.T, Num(0)), Ge(v.Off, Num(0)), Ge(v.Len, Num(0)), Le(v.Len, NumStr("9223372036854775807")),
			Implies(Eq(v.T, Num(0)), Eq(v.Len, Num(0))))
	case VIface:
		out = append(out, Ge(v.Tag, Num(0)))
	case VStruct, VTuple:
		for _, f := range v.Fields {
			out = append(out, wellFormed(f)...)
		}
	}
	return out
}

// valEq is structural equality of two values of the same type.
func valEq(a, b *Val) *Term {
	la, lb := a.leaves(), b.leaves()
	if len(la) != len(lb) {
		panic(fmt.Sprintf("valEq: %s vs %s", typeString(a.Typ), typeString(b.Typ)))
	}
	var cs []*Term
	for i := range la {
		if la[i] == nil || lb[i] == nil {
			panic("valEq on non-storable pointer")
		}
		cs = append(cs, Eq(la[i], lb[i]))
	}
	return And(cs...)
}

func iteVal(c *Term, a, b *Val) *Val {
	la, lb := a.leaves(), b.leaves()
	var ls []*Term
	for i := range la {
		ls = append(ls, Ite(c, la[i], lb[i]))
	}
	return mkVal(a.Typ, &ls)
}

func intVal(t *Term, typ types.Type) *Val  { return &Val{K: VInt, T: t, Typ: typ} }
func boolVal(t *Term) *Val                 { return &Val{K: VBool, T: t, Typ: types.Typ[types.Bool]} }
func strVal(t *Term, typ types.Type) *Val  { return &Val{K: VStr, T: t, Typ: typ} }
func timeVal(t *Term, typ types.Type) *Val { return &Val{K: VTime, T: t, Typ: typ} }
func bigVal(nilT, v *Term, typ types.Type) *Val {
	return &Val{K: VBig, Nil: nilT, T: v, Typ: typ, IsDec: isDecType(typ)}
}
func opaqueVal(typ types.Type) *Val { return &Val{K: VOpaque, Typ: typ} }

// type ids for interface tags
var typeIDs = map[string]int{}
var typeIDTypes = map[int]types.Type{}

// (a stable number derived from the type's name, not from the order in which types are met: the text of a unit's
// obligations must not depend on which other units were verified before it)
func typeID(t types.Type) int {
	k := typeString(t)
	if id, ok := typeIDs[k]; ok {
		return id
	}
	h := fnv.New32a()
	h.Write([]byte(k))
	id := int(h.Sum32()%1000000000) + 1
	for {
		if _, taken := typeIDTypes[id]; !taken {
			break
		}
		id++
	}
	typeIDs[k] = id
	typeIDTypes[id] = t
	return id
}

// string literal constants: distinct Str constants with known length
var strLits = map[string]*Term{}

func strLit(s string) *Term {
	if s == "" {
		return emptyStr
	}
	if t, ok := strLits[s]; ok {
		return t
	}
	name := "str:" + s
	t := Const(name, SStr)
	strLits[s] = t
	return t
}

func StrLen(s *Term) *Term { return UF("strlen", []string{SStr}, SInt, s) }
func StrCat(a, b *Term) *Term {
	return UF("strcat", []string{SStr, SStr}, SStr, a, b)
}
