package main

// Evaluation of contract expressions over a symbolic state.

import (
	"fmt"
	"go/types"
	"strings"
)

const VArr VK = 100 // spec-level array value (ghost maps): T has an array sort

type SpecEnv struct {
	x       *Exec
	st      *State
	old     *State
	vars    map[string]*Val
	resolve func(name string) *Val
	pkg     string // package path of the contract (for type names)
	sink    *State // receives let-definitions (nil: lets are inlined)
	nbound  int    // number of enclosing quantified variables
}

type specError struct{ msg string }

func (e specError) Error() string { return e.msg }

func sfail(f string, a ...interface{}) { panic(specError{fmt.Sprintf(f, a...)}) }

func (e *SpecEnv) with(name string, v *Val) *SpecEnv {
	n := *e
	n.vars = make(map[string]*Val, len(e.vars)+1)
	for k, x := range e.vars {
		n.vars[k] = x
	}
	n.vars[name] = v
	return &n
}

func specSort(t string) string {
	switch t {
	case "int":
		return SInt
	case "bool":
		return SBool
	case "str":
		return SStr
	}
	if strings.HasPrefix(t, "[") {
		d := 0
		for i, c := range t {
			if c == '[' {
				d++
			} else if c == ']' {
				d--
				if d == 0 {
					return SArr(specSort(t[1:i]), specSort(t[i+1:]))
				}
			}
		}
	}
	sfail("unknown spec type %q", t)
	return ""
}

func valOfSort(t *Term) *Val {
	switch {
	case t.Sort == SInt:
		return &Val{K: VInt, T: t}
	case t.Sort == SBool:
		return &Val{K: VBool, T: t}
	case t.Sort == SStr:
		return &Val{K: VStr, T: t}
	}
	return &Val{K: VArr, T: t}
}

func (e *SpecEnv) evalBool(s SExpr) *Term {
	v := e.eval(s)
	if v.K != VBool {
		sfail("expected a boolean expression, got kind %d", v.K)
	}
	return v.T
}

func toInt(v *Val) *Term {
	switch v.K {
	case VInt, VBig, VTime, VMap:
		return v.T
	case VPtr:
		if v.Ptr.Base == PObj && len(v.Ptr.Path) == 0 {
			return v.T
		}
	}
	sfail("expected an integer-valued expression (kind %d, type %v)", v.K, v.Typ)
	return nil
}

func (e *SpecEnv) evalInt(s SExpr) *Term { return toInt(e.eval(s)) }

// scalar coerces to a single SMT term (for spec function arguments / equality).
func scalar(v *Val) *Term {
	switch v.K {
	case VInt, VBig, VTime, VBool, VStr, VArr, VCoins, VMap:
		return v.T
	case VPtr:
		if v.Ptr.Base == PObj && len(v.Ptr.Path) == 0 {
			return v.T
		}
	}
	sfail("expected a scalar value (kind %d, type %v)", v.K, v.Typ)
	return nil
}

func (e *SpecEnv) eval(s SExpr) *Val {
	switch n := s.(type) {
	case SNum:
		return &Val{K: VInt, T: NumBig(n.Val)}
	case SBoolL:
		return boolVal(BoolT(n.B))
	case SStrLit:
		return &Val{K: VStr, T: strLit(n.S)}
	case SNil:
		return &Val{K: VOpaque} // only meaningful in comparisons
	case SIdent:
		return e.ident(n.Name)
	case SUnary:
		switch n.Op {
		case "!":
			return boolVal(Not(e.evalBool(n.X)))
		case "-":
			return &Val{K: VInt, T: Neg(e.evalInt(n.X))}
		case "*":
			p := e.eval(n.X)
			if p.K != VPtr {
				sfail("dereference of a non-pointer")
			}
			return e.x.loadNoCheck(e.st, p)
		}
	case SBinary:
		return e.binary(n)
	case SIte:
		c := e.evalBool(n.C)
		a, b := e.eval(n.A), e.eval(n.B)
		if a.K == VBool {
			return boolVal(Ite(c, a.T, b.T))
		}
		if a.K == VStr {
			return &Val{K: VStr, T: Ite(c, a.T, b.T)}
		}
		return &Val{K: VInt, T: Ite(c, toInt(a), toInt(b))}
	case SLet:
		v := e.eval(n.Val)
		sink := e.sink
		if sink == nil {
			sink = e.st
		}
		if e.nbound == 0 && sink != nil && e.x != nil {
			switch v.K {
			case VInt, VBool, VStr, VTime:
				c := *v
				c.T = e.x.define(sink, v.T, "let:"+n.Name)
				v = &c
			case VBig:
				c := *v
				c.T = e.x.define(sink, v.T, "let:"+n.Name)
				v = &c
			}
		}
		return e.with(n.Name, v).eval(n.Body)
	case SQuant:
		envc := *e
		envc.nbound = e.nbound + 1
		env := &envc
		var vars []*Term
		for _, p := range n.Vars {
			// the SMT name carries the nesting depth: a predicate macro whose body binds `k` can then be applied to an
			// argument that mentions the caller's own bound `k` without capturing it
			nm := p.Name
			if e.nbound > 0 {
				nm = fmt.Sprintf("%s_%d", p.Name, e.nbound)
			}
			b := Bound(nm, specSort(p.Type))
			vars = append(vars, b)
			env = env.with(p.Name, valOfSort(b))
		}
		body := env.evalBool(n.Body)
		var pats [][]*Term
		for _, pat := range n.Pats {
			var ts []*Term
			for _, pe := range pat {
				ts = append(ts, scalar(env.eval(pe)))
			}
			pats = append(pats, ts)
		}
		if n.Kind == "forall" {
			return boolVal(Forall(vars, body, pats...))
		}
		return boolVal(Exists(vars, body))
	case SSelect:
		return e.selectField(e.eval(n.X), n.Field)
	case SIndex:
		return e.index(e.eval(n.X), e.eval(n.Idx))
	case SCall:
		return e.call(n)
	}
	sfail("cannot evaluate %T", s)
	return nil
}

var specConsts = map[string]*Term{
	"P":         P18,
	"maxInt64":  NumStr("9223372036854775807"),
	"minInt64":  NumStr("-9223372036854775808"),
	"maxUint32": Num(4294967295),
	"maxUint64": NumStr("18446744073709551615"),
	"yearNs":    NumStr("31536000000000000"),
	"secondNs":  Num(1000000000),
	"msNs":      Num(1000000),
	"two256":    NumStr("115792089237316195423570985008687907853269984665640564039457584007913129639936"),
}

func (e *SpecEnv) ident(name string) *Val {
	if v, ok := e.vars[name]; ok {
		return v
	}
	if strings.HasPrefix(name, "$") {
		g, ok := e.st.Ghost[name[1:]]
		if !ok {
			sfail("unknown ghost variable %s", name)
		}
		return g
	}
	if c, ok := specConsts[name]; ok {
		return &Val{K: VInt, T: c}
	}
	if e.resolve != nil {
		if v := e.resolve(name); v != nil {
			return v
		}
	}
	sfail("unknown name %q in contract", name)
	return nil
}

func (e *SpecEnv) binary(n SBinary) *Val {
	switch n.Op {
	case "&&":
		return boolVal(And(e.evalBool(n.X), e.evalBool(n.Y)))
	case "||":
		return boolVal(Or(e.evalBool(n.X), e.evalBool(n.Y)))
	case "==>":
		return boolVal(Implies(e.evalBool(n.X), e.evalBool(n.Y)))
	case "<==>":
		return boolVal(Eq(e.evalBool(n.X), e.evalBool(n.Y)))
	case "==", "!=":
		var eq *Term
		_, xn := n.X.(SNil)
		_, yn := n.Y.(SNil)
		switch {
		case xn && yn:
			eq = TrueT
		case xn || yn:
			o := n.X
			if xn {
				o = n.Y
			}
			eq = isNilVal(e.eval(o))
		default:
			eq = specEq(e.eval(n.X), e.eval(n.Y))
		}
		if n.Op == "!=" {
			eq = Not(eq)
		}
		return boolVal(eq)
	case "<", "<=", ">", ">=":
		a, b := e.evalInt(n.X), e.evalInt(n.Y)
		return boolVal(cmp(n.Op, a, b))
	case "+":
		a, b := e.eval(n.X), e.eval(n.Y)
		if a.K == VStr && b.K == VStr {
			return &Val{K: VStr, T: StrCat(a.T, b.T)}
		}
		return &Val{K: VInt, T: Add(toInt(a), toInt(b))}
	case "-":
		return &Val{K: VInt, T: Sub(e.evalInt(n.X), e.evalInt(n.Y))}
	case "*":
		return &Val{K: VInt, T: Mul(e.evalInt(n.X), e.evalInt(n.Y))}
	case "/":
		return &Val{K: VInt, T: TQuo(e.evalInt(n.X), e.evalInt(n.Y))}
	case "%":
		return &Val{K: VInt, T: TRem(e.evalInt(n.X), e.evalInt(n.Y))}
	}
	sfail("unknown operator %s", n.Op)
	return nil
}

func isNilVal(v *Val) *Term {
	switch v.K {
	case VPtr:
		if v.Ptr.Base == PObj && len(v.Ptr.Path) == 0 {
			return Eq(v.T, Num(0))
		}
		return FalseT
	case VIface:
		return Eq(v.Tag, Num(0))
	case VSlice, VMap:
		return Eq(v.T, Num(0))
	case VBig:
		return v.Nil
	}
	sfail("comparison of a non-nilable value with nil")
	return nil
}

func specEq(a, b *Val) *Term {
	num := func(v *Val) bool { return v.K == VInt || v.K == VBig || v.K == VTime }
	switch {
	case a.K == VBig && b.K == VBig:
		return And(Eq(a.Nil, b.Nil), Eq(a.T, b.T))
	case num(a) && num(b):
		return Eq(a.T, b.T)
	case a.K == VStruct && b.K == VStruct, a.K == VIface && b.K == VIface, a.K == VSlice && b.K == VSlice:
		return valEq(a, b)
	case a.K == VPtr && b.K == VPtr:
		return ptrEq(a, b)
	}
	return Eq(scalar(a), scalar(b))
}

func fieldIndex(t types.Type, name string) (int, bool) {
	st, ok := types.Unalias(t).Underlying().(*types.Struct)
	if !ok {
		return 0, false
	}
	for i := 0; i < st.NumFields(); i++ {
		if st.Field(i).Name() == name {
			return i, true
		}
	}
	return 0, false
}

// fieldPath finds field f in struct type t, looking through embedded structs (promoted fields).
func fieldPath(t types.Type, f string, depth int) ([]int, bool) {
	if i := strings.Index(f, "."); i > 0 && depth == 0 {
		// dotted path through nested struct values: "Destination.Type"
		head, ok := fieldPath(t, f[:i], 0)
		if !ok {
			return nil, false
		}
		_, ht := pathPrefix(t, head)
		tail, ok := fieldPath(ht, f[i+1:], 0)
		if !ok {
			return nil, false
		}
		return append(head, tail...), true
	}
	st, ok := types.Unalias(t).Underlying().(*types.Struct)
	if !ok || depth > 4 {
		return nil, false
	}
	for i := 0; i < st.NumFields(); i++ {
		if st.Field(i).Name() == f {
			return []int{i}, true
		}
	}
	for i := 0; i < st.NumFields(); i++ {
		if st.Field(i).Embedded() {
			ft := st.Field(i).Type()
			if _, isPtr := types.Unalias(ft).Underlying().(*types.Pointer); isPtr {
				continue
			}
			if p, ok := fieldPath(ft, f, depth+1); ok {
				return append([]int{i}, p...), true
			}
		}
	}
	return nil, false
}

func (e *SpecEnv) selectField(v *Val, f string) *Val {
	if v.K == VPtr {
		// auto-dereference
		root := v.Ptr.Root
		_, t := pathPrefix(root, v.Ptr.Path)
		path, ok := fieldPath(t, f, 0)
		if !ok {
			sfail("type %s has no field %s", typeString(t), f)
		}
		np := *v
		pi := *v.Ptr
		pi.Path = append(append([]int(nil), v.Ptr.Path...), path...)
		np.Ptr = &pi
		return e.x.loadNoCheck(e.st, &np)
	}
	if v.K == VStruct {
		path, ok := fieldPath(v.Typ, f, 0)
		if !ok {
			sfail("type %s has no field %s", typeString(v.Typ), f)
		}
		return subVal(v, path)
	}
	sfail("field selection .%s on a value of kind %d", f, v.K)
	return nil
}

func (e *SpecEnv) index(v, i *Val) *Val {
	switch v.K {
	case VArr, VCoins:
		return valOfSort(Select(v.T, scalar(i)))
	case VSlice:
		et := sliceElem(v.Typ)
		return e.st.loadElem(et, v.T, ElemIdx(v.Off, toInt(i)), "", et)
	case VMap:
		_, et := mapTypes(v.Typ)
		var ls []*Term
		for _, l := range flatten(et) {
			_, arr := e.x.mapValArr(e.st, v.Typ, l)
			ls = append(ls, Select(Select(arr, v.T), scalar(i)))
		}
		return mkVal(et, &ls)
	}
	sfail("indexing a value of kind %d", v.K)
	return nil
}

func (e *SpecEnv) call(n SCall) *Val {
	// method-style observers
	if sel, ok := n.Fun.(SSelect); ok {
		recv := e.eval(sel.X)
		var args []*Val
		for _, a := range n.Args {
			args = append(args, e.eval(a))
		}
		return e.method(recv, sel.Field, args)
	}
	id, ok := n.Fun.(SIdent)
	if !ok {
		sfail("unsupported call form")
	}
	switch id.Name {
	case "old":
		if e.old == nil {
			sfail("old() used where no pre-state exists")
		}
		o := *e
		o.st = e.old
		if o.sink == nil {
			o.sink = e.st
		}
		return o.eval(n.Args[0])
	case "len":
		v := e.eval(n.Args[0])
		switch v.K {
		case VSlice:
			return &Val{K: VInt, T: v.Len}
		case VStr:
			return &Val{K: VInt, T: StrLen(v.T)}
		case VCoins:
			return &Val{K: VInt, T: CoinsLen(v.T)}
		}
		sfail("len of kind %d", v.K)
	case "denomAt":
		// denomAt(coins, i): the denomination of the i-th entry of a Coins value seen as a slice
		v := e.eval(n.Args[0])
		if v.K != VCoins && !(v.K == VArr && v.T.Sort == sortStrArrInt) {
			sfail("denomAt(coins, i)")
		}
		return &Val{K: VStr, T: DenomAt(v.T, e.evalInt(n.Args[1]))}
	case "truncInt": // Dec -> Int truncation toward zero
		return &Val{K: VInt, T: TruncP(e.evalInt(n.Args[0]))}
	case "chopRound":
		return &Val{K: VInt, T: ChopRound(e.evalInt(n.Args[0]))}
	case "cvaVested":
		// cvaVested(originalVesting, start, end, tUnix): the amount a ContinuousVestingAccount has vested (the library model's
		// own formula, x/auth/vesting v0.46.10)
		return &Val{K: VInt, T: vestedAmount(e.evalInt(n.Args[0]), e.evalInt(n.Args[1]), e.evalInt(n.Args[2]), e.evalInt(n.Args[3]))}
	case "tquo":
		return &Val{K: VInt, T: TQuo(e.evalInt(n.Args[0]), e.evalInt(n.Args[1]))}
	case "abs":
		return &Val{K: VInt, T: AbsI(e.evalInt(n.Args[0]))}
	case "min":
		a, b := e.evalInt(n.Args[0]), e.evalInt(n.Args[1])
		return &Val{K: VInt, T: Ite(Le(a, b), a, b)}
	case "max":
		a, b := e.evalInt(n.Args[0]), e.evalInt(n.Args[1])
		return &Val{K: VInt, T: Ite(Ge(a, b), a, b)}
	case "fdiv": // floor division by a positive numeral
		return &Val{K: VInt, T: DivC(e.evalInt(n.Args[0]), e.evalInt(n.Args[1]))}
	case "hasType":
		v := e.eval(n.Args[0])
		s, ok := n.Args[1].(SStrLit)
		if v.K != VIface || !ok {
			sfail("hasType(iface, \"T\")")
		}
		return boolVal(Eq(v.Tag, Num(int64(typeID(e.x.P.resolveType(e.pkg, s.S))))))
	case "asType":
		v := e.eval(n.Args[0])
		s, ok := n.Args[1].(SStrLit)
		if v.K != VIface || !ok {
			sfail("asType(iface, \"T\")")
		}
		return e.x.unbox(e.st, v, e.x.P.resolveType(e.pkg, s.S))
	case "select":
		return valOfSort(Select(scalar(e.eval(n.Args[0])), scalar(e.eval(n.Args[1]))))
	case "store":
		return valOfSort(Store(scalar(e.eval(n.Args[0])), scalar(e.eval(n.Args[1])), scalar(e.eval(n.Args[2]))))
	case "fresh":
		// the reference was allocated during the call / function (did not exist in the pre-state)
		if e.old == nil {
			sfail("fresh() needs a pre-state")
		}
		r := toInt(e.eval(n.Args[0]))
		return boolVal(And(Ge(r, e.old.NextRef), Lt(r, e.st.NextRef)))
	case "freshSlice":
		v := e.eval(n.Args[0])
		if v.K != VSlice || e.old == nil {
			sfail("freshSlice(slice)")
		}
		return boolVal(And(Ge(v.T, e.old.NextRef), Lt(v.T, e.st.NextRef), Eq(v.Off, Num(0))))
	case "global":
		// value of a package-level variable of byte-string / string type, e.g. global("types.ParamsKey")
		s, ok := n.Args[0].(SStrLit)
		if !ok {
			sfail("global(\"pkg.Name\")")
		}
		return &Val{K: VStr, T: Const("glob:"+e.x.P.resolveGlobal(e.pkg, s.S), SStr)}
	case "errIs":
		// errIs(err, "pkg.ErrName"): the error is, or wraps, the registered error (errors.Is)
		ev := e.eval(n.Args[0])
		s, ok := n.Args[1].(SStrLit)
		if !ok || ev.K != VIface {
			sfail("errIs(err, \"pkg.ErrName\")")
		}
		gname := "glob:" + e.x.P.resolveGlobal(e.pkg, s.S)
		errGlobals[gname] = true
		if errPtrTag == 0 {
			for _, pk := range e.x.P.Pkgs {
				for _, imp := range pk.Types.Imports() {
					if imp.Path() == "cosmossdk.io/errors" {
						if o := imp.Scope().Lookup("Error"); o != nil {
							errPtrTag = typeID(types.NewPointer(o.Type()))
						}
					}
				}
			}
		}
		return boolVal(And(Neq(ev.Tag, Num(0)), Eq(errRootOf(ev), Const(gname, SInt))))
	case "accType":
		// type id stored in $accTag for "base" | "cva" | "module" accounts
		s, ok := n.Args[0].(SStrLit)
		if !ok {
			sfail("accType(\"base\"|\"cva\"|\"module\")")
		}
		at := e.x.authTypes()
		var t types.Type
		switch s.S {
		case "base":
			t = at.base
		case "cva":
			t = at.cva
		case "module":
			t = at.mod
		default:
			sfail("accType: unknown kind %s", s.S)
		}
		return &Val{K: VInt, T: Num(int64(typeID(types.NewPointer(t))))}
	case "zeroCoins":
		return &Val{K: VCoins, T: zeroCoinsT}
	case "typeId":
		s, ok := n.Args[0].(SStrLit)
		if !ok {
			sfail("typeId(\"*pkg.Type\")")
		}
		return &Val{K: VInt, T: Num(int64(typeID(e.x.P.resolveType(e.pkg, s.S))))}
	case "ptr":
		// ptr("*pkg.Type", ref): view an integer reference (e.g. $evRef[i]) as a pointer to that type
		s, ok := n.Args[0].(SStrLit)
		if !ok {
			sfail("ptr(\"*pkg.Type\", ref)")
		}
		t := e.x.P.resolveType(e.pkg, s.S)
		return &Val{K: VPtr, Typ: t, T: toInt(e.eval(n.Args[1])), Ptr: &PtrInfo{Base: PObj, Root: ptrElem(t)}}
	case "fieldRow":
		// fieldRow(slice, "Field"): the backing-array row of one scalar field of a slice of structs, as a spec array
		// indexed by backing index (element i of the slice is at index off(slice)+i)
		v := e.eval(n.Args[0])
		s, ok := n.Args[1].(SStrLit)
		if v.K != VSlice || !ok {
			sfail("fieldRow(slice, \"Field\")")
		}
		et := sliceElem(v.Typ)
		fname, sub := s.S, ""
		for _, sfx := range []string{".arr", ".off", ".len"} {
			// a slice-typed field has three columns: fieldRow(list, "Field.arr" / ".off" / ".len")
			if strings.HasSuffix(fname, sfx) {
				fname, sub = strings.TrimSuffix(fname, sfx), sfx
			}
		}
		path, ok := fieldPath(et, fname, 0)
		if !ok {
			sfail("fieldRow: %s has no field %s", typeString(et), s.S)
		}
		prefix, ft := pathPrefix(et, path)
		fl := flatten(ft)
		if sub != "" {
			var pick []Leaf
			for _, l := range fl {
				if l.Path == sub {
					pick = append(pick, l)
				}
			}
			fl = pick
		}
		if len(fl) != 1 {
			sfail("fieldRow: field %s is not a scalar", s.S)
		}
		_, h := e.st.heapArr(et, Leaf{prefix + fl[0].Path, fl[0].Sort, fl[0].Ref}, true)
		return &Val{K: VArr, T: Select(h, v.T)}
	case "elemRow":
		// elemRow(slice): the backing-array row of a slice of scalars (ints, pointers, strings), indexed by backing index
		v := e.eval(n.Args[0])
		if v.K != VSlice {
			sfail("elemRow(slice)")
		}
		et := sliceElem(v.Typ)
		fl := flatten(et)
		if len(fl) != 1 {
			sfail("elemRow: element type %s is not a scalar", typeString(et))
		}
		_, h := e.st.heapArr(et, fl[0], true)
		return &Val{K: VArr, T: Select(h, v.T)}
	case "heapOf":
		// heapOf("pkg.Type", "Field"): the current heap column of one scalar field of a struct type, indexed by object reference
		ts, ok1 := n.Args[0].(SStrLit)
		fs, ok2 := n.Args[1].(SStrLit)
		if !ok1 || !ok2 {
			sfail("heapOf(\"pkg.Type\", \"Field\")")
		}
		t := e.x.P.resolveType(e.pkg, ts.S)
		fname, sub := fs.S, ""
		for _, sfx := range []string{".arr", ".off", ".len"} {
			// a slice-typed field has three columns: heapOf("T", "Field.arr" / ".off" / ".len")
			if strings.HasSuffix(fname, sfx) {
				fname, sub = strings.TrimSuffix(fname, sfx), sfx
			}
		}
		path, ok := fieldPath(t, fname, 0)
		if !ok {
			sfail("heapOf: %s has no field %s", typeString(t), fs.S)
		}
		prefix, ft := pathPrefix(t, path)
		fl := flatten(ft)
		if sub != "" {
			var pick []Leaf
			for _, l := range fl {
				if l.Path == sub {
					pick = append(pick, l)
				}
			}
			fl = pick
		}
		if len(fl) == 2 && classify(ft) == VBig {
			// math.Int / sdk.Dec: the number column (the nil flag is the other leaf)
			for _, l := range fl {
				if l.Sort == SInt {
					fl = []Leaf{l}
					break
				}
			}
		}
		if len(fl) != 1 {
			sfail("heapOf: field %s is not a scalar", fs.S)
		}
		_, h := e.st.heapArr(t, Leaf{prefix + fl[0].Path, fl[0].Sort, fl[0].Ref}, false)
		return &Val{K: VArr, T: h}
	case "lookup":
		// lookup(m, k): what the Go expression m[k] yields (the zero value when the key is absent or the map is nil)
		m := e.eval(n.Args[0])
		if m.K != VMap {
			sfail("lookup(map, key)")
		}
		_, has, ok := e.x.mapArrays(e.st, m.Typ)
		if !ok {
			sfail("lookup: unsupported key type")
		}
		kt := scalar(e.eval(n.Args[1]))
		present := And(Neq(m.T, Num(0)), Select(Select(has, m.T), kt))
		_, et := mapTypes(m.Typ)
		var ls []*Term
		for _, l := range flatten(et) {
			_, arr := e.x.mapValArr(e.st, m.Typ, l)
			ls = append(ls, Ite(present, Select(Select(arr, m.T), kt), zeroLeaf(l)))
		}
		return mkVal(et, &ls)
	case "keysOf", "valsOf":
		// keysOf(m): the key set of a Go map as a spec array key -> bool; valsOf(m): its values key -> value (scalar values)
		m := e.eval(n.Args[0])
		if m.K != VMap {
			sfail("%s(map)", id.Name)
		}
		_, has, ok := e.x.mapArrays(e.st, m.Typ)
		if !ok {
			sfail("%s: unsupported key type", id.Name)
		}
		if id.Name == "keysOf" {
			return &Val{K: VArr, T: Select(has, m.T)}
		}
		_, et := mapTypes(m.Typ)
		fl := flatten(et)
		if len(fl) != 1 {
			sfail("valsOf: the map's values are not scalars")
		}
		_, arr := e.x.mapValArr(e.st, m.Typ, fl[0])
		return &Val{K: VArr, T: Select(arr, m.T)}
	case "hasKey":
		// hasKey(m, k): the Go map m has an entry for key k
		m := e.eval(n.Args[0])
		if m.K != VMap {
			sfail("hasKey(map, key)")
		}
		_, has, ok := e.x.mapArrays(e.st, m.Typ)
		if !ok {
			sfail("hasKey: unsupported key type")
		}
		return boolVal(And(Neq(m.T, Num(0)), Select(Select(has, m.T), scalar(e.eval(n.Args[1])))))
	case "bankLocked":
		// bankLocked(addr): the coins x/bank's LockedCoins reports for the account in the current state (per denomination)
		a := e.eval(n.Args[0])
		return &Val{K: VCoins, T: bankLockedTerm(e.st, scalar(a))}
	case "rowsOf":
		// rowsOf("ElemType"): the heap of all backing arrays of slices with that (scalar: integer, pointer, string) element
		// type, indexed by backing-array reference, then by backing index
		ts, ok := n.Args[0].(SStrLit)
		if !ok {
			sfail("rowsOf(\"ElemType\")")
		}
		t := e.x.P.resolveType(e.pkg, ts.S)
		fl := flatten(t)
		if len(fl) != 1 {
			sfail("rowsOf: element type %s is not a scalar", typeString(t))
		}
		_, h := e.st.heapArr(t, fl[0], true)
		return &Val{K: VArr, T: h}
	case "off":
		v := e.eval(n.Args[0])
		if v.K != VSlice {
			sfail("off(slice)")
		}
		return &Val{K: VInt, T: v.Off}
	case "arr":
		// identity of the backing array of a slice (or of a map): for aliasing / freshness statements
		v := e.eval(n.Args[0])
		if v.K != VSlice && v.K != VMap {
			sfail("arr(slice)")
		}
		return &Val{K: VInt, T: v.T}
	case "storeOf":
		// name of the KV store opened with the given store key (interface value)
		v := e.eval(n.Args[0])
		if v.K != VIface {
			sfail("storeOf(storeKey)")
		}
		return &Val{K: VStr, T: UF("storeName", []string{SInt, SInt}, SStr, v.Tag, v.T)}
	case "encOf":
		// encOf("pkg.Type", leaf values...) — the codec encoding of a flat message with these field values
		s, ok := n.Args[0].(SStrLit)
		if !ok {
			sfail("encOf(\"Type\", fields...)")
		}
		t := e.x.P.resolveType(e.pkg, s.S)
		fl := flatten(t)
		var args []*Term
		var sorts []string
		for _, a := range n.Args[1:] {
			args = append(args, scalar(e.eval(a)))
		}
		if len(args) != len(fl) {
			sfail("encOf(%s): %d field values, type has %d leaves", s.S, len(args), len(fl))
		}
		for i, l := range fl {
			if args[i].Sort != l.Sort {
				sfail("encOf(%s): field %d has sort %s, want %s", s.S, i, args[i].Sort, l.Sort)
			}
			sorts = append(sorts, l.Sort)
		}
		return &Val{K: VStr, T: UF("enc:"+heapTypeKey(t), sorts, SStr, args...)}
	case "decSnap":
		// decSnap("pkg.Type", bytes): the abstract deep value whose encoding is bytes (inverse of enc for messages with references)
		s, ok := n.Args[0].(SStrLit)
		if !ok {
			sfail("decSnap(\"Type\", bytes)")
		}
		t := e.x.P.resolveType(e.pkg, s.S)
		fn := "encsnap:" + heapTypeKey(t)
		return &Val{K: VInt, T: UF("dec0:"+fn, []string{SStr}, SInt, scalar(e.eval(n.Args[1])))}
	case "enc":
		v := e.eval(n.Args[0])
		if v.K == VPtr {
			v = e.x.loadNoCheck(e.st, v)
		}
		return &Val{K: VStr, T: e.x.encTerm(e.st, v)}
	case "snap":
		v := e.eval(n.Args[0])
		if v.K == VPtr {
			v = e.x.loadNoCheck(e.st, v)
		}
		return &Val{K: VInt, T: e.x.snapTerm(e.st, v)}
	case "allocated":
		// the reference existed before the call (is not a fresh allocation)
		return boolVal(Lt(toInt(e.eval(n.Args[0])), e.st.NextRef))
	}
	if sig, ok := libUFs[id.Name]; ok {
		var ts []*Term
		for i, a := range n.Args {
			t := scalar(e.eval(a))
			if i < len(sig)-1 && t.Sort != sig[i] {
				sfail("%s: argument %d has sort %s, want %s", id.Name, i, t.Sort, sig[i])
			}
			ts = append(ts, t)
		}
		return valOfSort(UF(id.Name, sig[:len(sig)-1], sig[len(sig)-1], ts...))
	}
	// spec function / predicate
	if sf, ok := e.x.P.Specs.SpecFuncs[id.Name]; ok {
		var args []*Val
		for _, a := range n.Args {
			args = append(args, e.eval(a))
		}
		return e.x.applySpec(e, sf, args)
	}
	// lemma application: instantiated statement
	if lm, ok := e.x.P.Specs.Lemmas[id.Name]; ok {
		var args []*Val
		for _, a := range n.Args {
			args = append(args, e.eval(a))
		}
		return boolVal(e.x.lemmaInstance(lm, args))
	}
	sfail("unknown function %s in contract", id.Name)
	return nil
}

func (e *SpecEnv) method(r *Val, m string, args []*Val) *Val {
	switch r.K {
	case VBig:
		switch m {
		case "IsNil":
			return boolVal(r.Nil)
		case "IsZero":
			return boolVal(Eq(r.T, Num(0)))
		case "IsNegative":
			return boolVal(Lt(r.T, Num(0)))
		case "IsPositive":
			return boolVal(Gt(r.T, Num(0)))
		}
	case VTime:
		switch m {
		case "Before":
			return boolVal(Lt(r.T, toInt(args[0])))
		case "After":
			return boolVal(Gt(r.T, toInt(args[0])))
		case "Equal":
			return boolVal(Eq(r.T, toInt(args[0])))
		case "UnixMilli":
			return &Val{K: VInt, T: DivC(r.T, Num(1000000))}
		case "Unix":
			return &Val{K: VInt, T: DivC(r.T, Num(1000000000))}
		}
	case VCoins:
		switch m {
		case "AmountOf":
			return &Val{K: VInt, T: Select(r.T, scalar(args[0]))}
		}
	}
	sfail("unknown observer .%s on kind %d", m, r.K)
	return nil
}

// ---------- spec functions ----------

func (x *Exec) applySpec(e *SpecEnv, sf *SpecFunc, args []*Val) *Val {
	if len(args) != len(sf.Params) {
		sfail("spec function %s: %d arguments, want %d", sf.Name, len(args), len(sf.Params))
	}
	// predicates and non-recursive spec functions are macros: expanded in place (no quantified axiom)
	if sf.Body != nil && (!sf.Opaque || x.revealed[sf.Name]) && (x.P.Specs.isPred(sf) || !x.P.Specs.isRecursive(sf)) {
		// (sink: where let-definitions evaluated under old() are recorded; nbound: inside a quantifier no constant is introduced)
		env := &SpecEnv{x: x, st: e.st, old: e.old, vars: map[string]*Val{}, pkg: sf.Pkg, sink: e.sink, nbound: e.nbound}
		for i, p := range sf.Params {
			env.vars[p.Name] = args[i]
		}
		return env.eval(sf.Body)
	}
	var ts []*Term
	var sorts []string
	for i, p := range sf.Params {
		ps := specSort(p.Type)
		t := scalar(args[i])
		if t.Sort != ps {
			sfail("spec function %s: argument %s has sort %s, want %s", sf.Name, p.Name, t.Sort, ps)
		}
		ts = append(ts, t)
		sorts = append(sorts, ps)
	}
	x.declareSpec(sf)
	return valOfSort(UF("spec:"+sf.Name, sorts, specSort(sf.Ret), ts...))
}

// library-level uninterpreted functions usable in contracts
var libUFs = map[string][]string{
	"hasPerm":      {SStr, SStr, SBool},
	"moduleExists": {SStr, SBool},
	"modaddr":      {SStr, SStr},
	"validDenom":   {SStr, SBool},
	"bech32ok":     {SStr, SBool},
	"toBech32":     {SStr, SStr},
	"fromBech32":   {SStr, SStr},
	"strlen":       {SStr, SInt},
	"intString":    {SInt, SStr},
	"sha256hex":    {SStr, SStr},
	"jsonField":    {SStr, SStr, SStr},
	"algKnown":     {SStr, SBool},
	"algOf":        {SStr, SInt},
	"b64ok":        {SStr, SBool},
	"b64dec":       {SStr, SStr},
	"certOk":       {SStr, SBool},
	"certSource":   {SInt, SStr},
	"sigVerifies":  {SStr, SInt, SStr, SStr, SBool},
	"timeString":   {SInt, SStr},
}

var predSet = map[*SpecFunc]bool{}

func (db *SpecDB) isPred(sf *SpecFunc) bool { return predSet[sf] }

var recCache = map[*SpecFunc]bool{}

// isRecursive: the body (transitively) mentions the function itself.
func (db *SpecDB) isRecursive(sf *SpecFunc) bool {
	if r, ok := recCache[sf]; ok {
		return r
	}
	seen := map[string]bool{}
	var visit func(e SExpr) bool
	var visitFn func(f *SpecFunc) bool
	visitFn = func(f *SpecFunc) bool {
		if f.Body == nil || seen[f.Name] {
			return false
		}
		seen[f.Name] = true
		return visit(f.Body)
	}
	visit = func(e SExpr) bool {
		switch n := e.(type) {
		case SUnary:
			return visit(n.X)
		case SBinary:
			return visit(n.X) || visit(n.Y)
		case SIte:
			return visit(n.C) || visit(n.A) || visit(n.B)
		case SLet:
			return visit(n.Val) || visit(n.Body)
		case SQuant:
			return visit(n.Body)
		case SSelect:
			return visit(n.X)
		case SIndex:
			return visit(n.X) || visit(n.Idx)
		case SCall:
			for _, a := range n.Args {
				if visit(a) {
					return true
				}
			}
			if id, ok := n.Fun.(SIdent); ok {
				if id.Name == sf.Name {
					return true
				}
				if g, ok := db.SpecFuncs[id.Name]; ok {
					return visitFn(g)
				}
			} else {
				return visit(n.Fun)
			}
		}
		return false
	}
	r := visit(sf.Body)
	recCache[sf] = r
	return r
}

// declareSpec adds the definitional axiom of a spec function (once per Exec).
func (x *Exec) declareSpec(sf *SpecFunc) {
	if x.specDone == nil {
		x.specDone = map[string]bool{}
	}
	if x.specDone[sf.Name] {
		return
	}
	x.specDone[sf.Name] = true
	if sf.Body == nil {
		return
	}
	if sf.Opaque && !x.revealed[sf.Name] {
		return
	}
	env := &SpecEnv{x: x, st: x.specState(), vars: map[string]*Val{}, pkg: sf.Pkg, nbound: 1}
	var vars []*Term
	var sorts []string
	for _, p := range sf.Params {
		b := Bound(p.Name, specSort(p.Type))
		vars = append(vars, b)
		sorts = append(sorts, b.Sort)
		env.vars[p.Name] = valOfSort(b)
	}
	body := env.eval(sf.Body)
	appT := UF("spec:"+sf.Name, sorts, specSort(sf.Ret), vars...)
	var def *Term
	if sf.Ret == "bool" {
		def = Eq(appT, body.T)
	} else {
		def = Eq(appT, scalar(body))
	}
	_ = appT
	if x.specDefs == nil {
		x.specDefs = map[string]*SpecDef{}
	}
	x.specDefs["spec:"+sf.Name] = &SpecDef{Vars: vars, Def: def}
}

// SpecDef is the definitional equation f(vars) = body of a recursive spec function;
// it is instantiated for the ground applications present in an obligation (fuel-bounded
// unfolding) instead of being asserted as a quantified axiom.
type SpecDef struct {
	Vars []*Term
	Def  *Term
}

// specState: spec function bodies are state-independent; give them an empty state.
func (x *Exec) specState() *State {
	return &State{Heap: map[string]*Term{}, HeapTypes: map[string]heapKeyInfo{}, Cells: map[int]*Val{}, CellTypes: map[int]types.Type{},
		Ghost: map[string]*Val{}, NextRef: Const("ref:base", SInt)}
}

// lemmaInstance is (requires ==> ensures) of a lemma at the given arguments.
func (x *Exec) lemmaInstance(lm *Lemma, args []*Val) *Term {
	if len(args) != len(lm.Params) {
		sfail("lemma %s: %d arguments, want %d", lm.Name, len(args), len(lm.Params))
	}
	env := &SpecEnv{x: x, st: x.specState(), vars: map[string]*Val{}, pkg: lm.Pkg}
	for i, p := range lm.Params {
		t := scalar(args[i])
		if t.Sort != specSort(p.Type) {
			sfail("lemma %s: argument %s has sort %s", lm.Name, p.Name, t.Sort)
		}
		env.vars[p.Name] = valOfSort(t)
	}
	var req, ens []*Term
	for _, r := range lm.Requires {
		req = append(req, env.evalBool(r))
	}
	for _, r := range lm.Ensures {
		ens = append(ens, env.evalBool(r))
	}
	if x.lemmasUsed == nil {
		x.lemmasUsed = map[string]bool{}
	}
	x.lemmasUsed[lm.Name] = true
	return Implies(And(req...), And(ens...))
}

// lemmaAxiom is the universally quantified form (needs triggers).
func (x *Exec) lemmaAxiom(lm *Lemma) *Term {
	env := &SpecEnv{x: x, st: x.specState(), vars: map[string]*Val{}, pkg: lm.Pkg, nbound: 1}
	var vars []*Term
	for _, p := range lm.Params {
		b := Bound(p.Name, specSort(p.Type))
		vars = append(vars, b)
		env.vars[p.Name] = valOfSort(b)
	}
	var req, ens []*Term
	for _, r := range lm.Requires {
		req = append(req, env.evalBool(r))
	}
	for _, r := range lm.Ensures {
		ens = append(ens, env.evalBool(r))
	}
	var pats [][]*Term
	for _, tr := range lm.Trigger {
		var ts []*Term
		for _, pe := range tr {
			ts = append(ts, scalar(env.eval(pe)))
		}
		pats = append(pats, ts)
	}
	if x.lemmasUsed == nil {
		x.lemmasUsed = map[string]bool{}
	}
	x.lemmasUsed[lm.Name] = true
	return Forall(vars, Implies(And(req...), And(ens...)), pats...)
}

// resolveType resolves "pkg.Name", "*pkg.Name", "Name" relative to a repo package.
func (p *Program) resolveType(pkgPath, name string) types.Type {
	if strings.HasPrefix(name, "*") {
		return types.NewPointer(p.resolveType(pkgPath, name[1:]))
	}
	if strings.HasPrefix(name, "[]") {
		return types.NewSlice(p.resolveType(pkgPath, name[2:]))
	}
	var pkg *types.Package
	for _, pk := range p.Pkgs {
		if pk.PkgPath == pkgPath {
			pkg = pk.Types
		}
	}
	if pkg == nil {
		sfail("unknown package %s", pkgPath)
	}
	if i := strings.LastIndex(name, "."); i >= 0 {
		q, nm := name[:i], name[i+1:]
		for _, imp := range pkg.Imports() {
			if imp.Name() == q || imp.Path() == q || strings.HasSuffix(imp.Path(), "/"+q) {
				if o := imp.Scope().Lookup(nm); o != nil {
					return o.Type()
				}
			}
		}
		// any loaded repo package with that name
		for _, pk := range p.Pkgs {
			if pk.Types.Name() == q || pk.PkgPath == q {
				if o := pk.Types.Scope().Lookup(nm); o != nil {
					return o.Type()
				}
			}
		}
		sfail("cannot resolve type %s from %s", name, pkgPath)
	}
	if o := pkg.Scope().Lookup(name); o != nil {
		return o.Type()
	}
	if o := types.Universe.Lookup(name); o != nil {
		return o.Type()
	}
	sfail("cannot resolve type %s in %s", name, pkgPath)
	return nil
}

// resolveGlobal resolves "pkg.Name" / "Name" to the qualified name <import path>.<Name> of a package-level variable.
func (p *Program) resolveGlobal(pkgPath, name string) string {
	var pkg *types.Package
	for _, pk := range p.Pkgs {
		if pk.PkgPath == pkgPath {
			pkg = pk.Types
		}
	}
	if pkg == nil {
		sfail("unknown package %s", pkgPath)
	}
	if i := strings.LastIndex(name, "."); i >= 0 {
		q, nm := name[:i], name[i+1:]
		for _, imp := range pkg.Imports() {
			if imp.Name() == q || strings.HasSuffix(imp.Path(), "/"+q) {
				if o := imp.Scope().Lookup(nm); o != nil {
					return imp.Path() + "." + nm
				}
			}
		}
		sfail("cannot resolve global %s from %s", name, pkgPath)
	}
	if o := pkg.Scope().Lookup(name); o != nil {
		return pkgPath + "." + name
	}
	sfail("cannot resolve global %s in %s", name, pkgPath)
	return ""
}
