package main

// Loading /repo (with -tags verif), building SSA, reading contract files.

import (
	"fmt"
	"go/ast"
	"go/constant"
	goparser "go/parser"
	"go/token"
	"go/types"
	"path/filepath"
	"os"
	"sort"
	"strconv"
	"strings"

	"golang.org/x/tools/go/packages"
	"golang.org/x/tools/go/ssa"
	"golang.org/x/tools/go/ssa/ssautil"
)

const repoModule = "github.com/chain4energy/c4e-chain"

type Program struct {
	Dir     string
	Pkgs    []*packages.Package
	Prog    *ssa.Program
	SSAPkgs map[string]*ssa.Package // by import path
	Funcs   map[string]*ssa.Function // by contract key: <pkgpath>.<Recv>.<Name> / <pkgpath>.<Name>
	Specs   *SpecDB
	maccPerms map[string][]string
}

type SpecDB struct {
	ArgOrders []ArgOrderDecl
	Effects   []EffectDecl
	Files     map[string]*SpecFile // by package path
	Contracts map[string]*FuncContract
	SpecFuncs map[string]*SpecFunc // by name (global namespace)
	Lemmas    map[string]*Lemma
	Ghosts    map[string]*GhostVar
}

func repoDir() string {
	if d := os.Getenv("GOCV_REPO"); d != "" {
		return d
	}
	return "/repo"
}

var loadPatterns = []string{"./x/...", "./app/upgrades/...", "./app/params/...", "./app"}

func LoadProgram(dir string) (*Program, error) {
	cfg := &packages.Config{
		Mode: packages.NeedName | packages.NeedFiles | packages.NeedCompiledGoFiles | packages.NeedImports | packages.NeedDeps |
			packages.NeedTypes | packages.NeedSyntax | packages.NeedTypesInfo | packages.NeedTypesSizes | packages.NeedModule,
		Dir:        dir,
		BuildFlags: []string{"-tags=verif", "-mod=mod"},
		Env:        append(os.Environ(), "GOFLAGS=-mod=mod", "GOPROXY=off", "GOSUMDB=off", "GOTOOLCHAIN=local"),
		Tests:      false,
	}
	pkgs, err := packages.Load(cfg, loadPatterns...)
	if err != nil {
		return nil, err
	}
	var errs []string
	packages.Visit(pkgs, nil, func(p *packages.Package) {
		for _, e := range p.Errors {
			if strings.HasPrefix(p.PkgPath, repoModule) {
				errs = append(errs, e.Error())
			}
		}
	})
	if len(errs) > 0 {
		return nil, fmt.Errorf("load errors in /repo packages:\n%s", strings.Join(errs, "\n"))
	}
	prog, spkgs := ssautil.Packages(pkgs, ssa.GlobalDebug|ssa.BareInits)
	for _, sp := range spkgs {
		if sp != nil {
			sp.Build()
		}
	}
	p := &Program{Dir: dir, Pkgs: pkgs, Prog: prog, SSAPkgs: map[string]*ssa.Package{}, Funcs: map[string]*ssa.Function{}}
	for i, sp := range spkgs {
		if sp == nil {
			continue
		}
		p.SSAPkgs[pkgs[i].PkgPath] = sp
	}
	// index functions and methods of the repo's packages
	for path, sp := range p.SSAPkgs {
		if !strings.HasPrefix(path, repoModule) {
			continue
		}
		for _, m := range sp.Members {
			switch m := m.(type) {
			case *ssa.Function:
				p.Funcs[path+"."+m.Name()] = m
			case *ssa.Type:
				for _, T := range []types.Type{m.Type(), types.NewPointer(m.Type())} {
					ms := prog.MethodSets.MethodSet(T)
					for i := 0; i < ms.Len(); i++ {
						fn := prog.MethodValue(ms.At(i))
						if fn == nil || fn.Synthetic != "" {
							continue
						}
						key := path + "." + m.Name() + "." + fn.Name()
						if _, ok := p.Funcs[key]; !ok {
							p.Funcs[key] = fn
						}
					}
				}
			}
		}
	}
	db, err := loadSpecs(pkgs)
	if err != nil {
		return nil, err
	}
	p.Specs = db
	return p, nil
}

// loadSpecs collects the //@ lines of every file named *_verif.go in the repo's packages.
func loadSpecs(pkgs []*packages.Package) (*SpecDB, error) {
	db := &SpecDB{Files: map[string]*SpecFile{}, Contracts: map[string]*FuncContract{}, SpecFuncs: map[string]*SpecFunc{},
		Lemmas: map[string]*Lemma{}, Ghosts: map[string]*GhostVar{}}
	for _, g := range builtinGhosts {
		db.Ghosts[g.Name] = g
	}
	sorted := append([]*packages.Package(nil), pkgs...)
	sort.Slice(sorted, func(i, j int) bool { return sorted[i].PkgPath < sorted[j].PkgPath })
	for _, p := range sorted {
		var lines []string
		for i, f := range p.Syntax {
			name := p.CompiledGoFiles[i]
			if !strings.HasSuffix(name, "_verif.go") {
				continue
			}
			lines = append(lines, specLines(f)...)
		}
		if len(lines) == 0 {
			continue
		}
		sf, err := parseSpecText(p.PkgPath, lines)
		if err != nil {
			return nil, fmt.Errorf("%s: %v", p.PkgPath, err)
		}
		db.Files[p.PkgPath] = sf
		for _, c := range sf.Funcs {
			db.Contracts[c.Key()] = c
		}
		db.Effects = append(db.Effects, sf.Effects...)
		db.ArgOrders = append(db.ArgOrders, sf.ArgOrders...)
		for _, s := range sf.Specs {
			if _, dup := db.SpecFuncs[s.Name]; dup {
				return nil, fmt.Errorf("duplicate spec function %s", s.Name)
			}
			db.SpecFuncs[s.Name] = s
		}
		for _, l := range sf.Lemmas {
			if _, dup := db.Lemmas[l.Name]; dup {
				return nil, fmt.Errorf("duplicate lemma %s", l.Name)
			}
			db.Lemmas[l.Name] = l
		}
		for _, g := range sf.Ghosts {
			if _, dup := db.Ghosts[g.Name]; dup {
				return nil, fmt.Errorf("duplicate ghost %s", g.Name)
			}
			db.Ghosts[g.Name] = g
		}
	}
	// `uses` clauses are assumed, so they may only be built from applications of (separately proved) lemmas
	for _, key := range sortedContractKeys(db.Contracts) {
		c := db.Contracts[key]
		var all []SExpr
		all = append(all, c.Uses...)
		all = append(all, c.UsesPost...)
		for _, l := range c.Loops {
			all = append(all, l.Uses...)
		}
		for _, u := range all {
			if !db.isLemmaUse(u, 0) {
				return nil, fmt.Errorf("contract %s: a uses clause must consist of lemma applications (under let / forall / && / ==>)", key)
			}
		}
	}
	for name, l := range db.Lemmas {
		for _, u := range l.Uses {
			if !db.isLemmaUse(u, 0) {
				return nil, fmt.Errorf("lemma %s: a uses clause must consist of lemma applications", name)
			}
		}
	}
	return db, nil
}

func sortedContractKeys(m map[string]*FuncContract) []string {
	var ks []string
	for k := range m {
		ks = append(ks, k)
	}
	sort.Strings(ks)
	return ks
}

func (db *SpecDB) isLemmaUse(e SExpr, depth int) bool {
	switch n := e.(type) {
	case SIdent:
		return db.Lemmas[n.Name] != nil
	case SLet:
		return db.isLemmaUse(n.Body, depth)
	case SQuant:
		return n.Kind == "forall" && db.isLemmaUse(n.Body, depth)
	case SBinary:
		if n.Op == "&&" {
			return db.isLemmaUse(n.X, depth) && db.isLemmaUse(n.Y, depth)
		}
		if n.Op == "==>" {
			return db.isLemmaUse(n.Y, depth)
		}
	case SCall:
		if id, ok := n.Fun.(SIdent); ok {
			if db.Lemmas[id.Name] != nil {
				return true
			}
			if sf := db.SpecFuncs[id.Name]; sf != nil && sf.Body != nil && depth < 5 {
				return db.isLemmaUse(sf.Body, depth+1)
			}
		}
	}
	return false
}

func specLines(f *ast.File) []string {
	var out []string
	for _, cg := range f.Comments {
		for _, c := range cg.List {
			t := c.Text
			if strings.HasPrefix(t, "//@") {
				out = append(out, strings.TrimPrefix(t, "//@"))
			}
		}
	}
	return out
}

// contractKeyOf computes the contract key of an SSA function ("" for closures etc).
func contractKeyOf(fn *ssa.Function) string {
	if fn == nil || fn.Pkg == nil && fn.Signature.Recv() == nil {
		return ""
	}
	if fn.Parent() != nil {
		return ""
	}
	recv := fn.Signature.Recv()
	if recv != nil {
		t := recv.Type()
		if p, ok := t.(*types.Pointer); ok {
			t = p.Elem()
		}
		n, ok := types.Unalias(t).(*types.Named)
		if !ok || n.Obj().Pkg() == nil {
			return ""
		}
		return n.Obj().Pkg().Path() + "." + n.Obj().Name() + "." + fn.Name()
	}
	if fn.Pkg == nil {
		return ""
	}
	return fn.Pkg.Pkg.Path() + "." + fn.Name()
}

func inRepo(fn *ssa.Function) bool {
	if fn == nil {
		return false
	}
	var pkg *types.Package
	if fn.Pkg != nil {
		pkg = fn.Pkg.Pkg
	} else if fn.Signature.Recv() != nil {
		pkg = fn.Signature.Recv().Pkg()
	} else if fn.Parent() != nil {
		return inRepo(fn.Parent())
	}
	return pkg != nil && strings.HasPrefix(pkg.Path(), repoModule)
}

// globalBytesLen: length of a package-level []byte / string variable initialised with a literal
// (`[]byte{0x00}`, `[]byte("abc")`, "abc"); read from the declaration's AST.
func (p *Program) globalBytesLen(g *ssa.Global) (int, bool) {
	for _, pk := range p.Pkgs {
		if pk.Types != g.Pkg.Pkg {
			continue
		}
		for _, f := range pk.Syntax {
			for _, d := range f.Decls {
				gd, ok := d.(*ast.GenDecl)
				if !ok {
					continue
				}
				for _, sp := range gd.Specs {
					vs, ok := sp.(*ast.ValueSpec)
					if !ok {
						continue
					}
					for i, nm := range vs.Names {
						if nm.Name != g.Name() || i >= len(vs.Values) {
							continue
						}
						switch e := vs.Values[i].(type) {
						case *ast.CompositeLit:
							return len(e.Elts), true
						case *ast.BasicLit:
							if s, err := strconv.Unquote(e.Value); err == nil {
								return len(s), true
							}
						case *ast.CallExpr:
							if len(e.Args) == 1 {
								if bl, ok := e.Args[0].(*ast.BasicLit); ok {
									if s, err := strconv.Unquote(bl.Value); err == nil {
										return len(s), true
									}
								}
							}
						}
					}
				}
			}
		}
	}
	return 0, false
}

// MaccPerms reads the module-account permission table from the composite literal assigned to
// `maccPerms` in /repo/app/app.go (re-read on every run). Keys and permissions are constants of
// dependency packages, resolved through the loaded type information.
func (p *Program) MaccPerms() (map[string][]string, error) {
	if p.maccPerms != nil {
		return p.maccPerms, nil
	}
	fset := token.NewFileSet()
	f, err := goparser.ParseFile(fset, filepath.Join(p.Dir, "app", "app.go"), nil, 0)
	if err != nil {
		return nil, err
	}
	alias := map[string]string{}
	for _, im := range f.Imports {
		path, _ := strconv.Unquote(im.Path.Value)
		name := path[strings.LastIndex(path, "/")+1:]
		if im.Name != nil {
			name = im.Name.Name
		}
		alias[name] = path
	}
	constOf := func(e ast.Expr) (string, bool) {
		switch v := e.(type) {
		case *ast.BasicLit:
			s, err := strconv.Unquote(v.Value)
			return s, err == nil
		case *ast.SelectorExpr:
			id, ok := v.X.(*ast.Ident)
			if !ok {
				return "", false
			}
			path, ok := alias[id.Name]
			if !ok {
				return "", false
			}
			return p.depConst(path, v.Sel.Name)
		}
		return "", false
	}
	res := map[string][]string{}
	found := false
	ast.Inspect(f, func(n ast.Node) bool {
		vs, ok := n.(*ast.ValueSpec)
		if !ok {
			return true
		}
		for i, nm := range vs.Names {
			if nm.Name != "maccPerms" || i >= len(vs.Values) {
				continue
			}
			cl, ok := vs.Values[i].(*ast.CompositeLit)
			if !ok {
				continue
			}
			found = true
			for _, el := range cl.Elts {
				kv, ok := el.(*ast.KeyValueExpr)
				if !ok {
					continue
				}
				k, ok := constOf(kv.Key)
				if !ok {
					continue // a module of a dependency that the custom modules never import: its name cannot matter to them
				}
				var perms []string
				if pl, ok := kv.Value.(*ast.CompositeLit); ok {
					for _, pe := range pl.Elts {
						if s, ok := constOf(pe); ok {
							perms = append(perms, s)
						}
					}
				}
				res[k] = perms
			}
		}
		return true
	})
	if err != nil {
		return nil, err
	}
	if !found {
		return nil, fmt.Errorf("maccPerms literal not found in app/app.go")
	}
	p.maccPerms = res
	return res, nil
}

func (p *Program) depConst(path, name string) (string, bool) {
	var val string
	ok := false
	seen := map[*types.Package]bool{}
	var visit func(pk *types.Package)
	visit = func(pk *types.Package) {
		if seen[pk] || ok {
			return
		}
		seen[pk] = true
		if pk.Path() == path {
			if c, isC := pk.Scope().Lookup(name).(*types.Const); isC && c.Val().Kind() == constant.String {
				val, ok = constant.StringVal(c.Val()), true
			}
			return
		}
		for _, imp := range pk.Imports() {
			visit(imp)
		}
	}
	for _, pk := range p.Pkgs {
		visit(pk.Types)
	}
	return val, ok
}
