package main

// Library model, part 2: sdk.Context, coins, x/bank, events, addresses.
// Abstract state lives in engine-defined ghost variables:
//   $blockTime            int   block time (ns)
//   $bal   [str][str]int  balance per address and denom
//   $supply [str]int      total supply per denom
//   $evCount int, $evTag [int]int, $evRef [int]int   typed events emitted so far

import (
	"go/types"
	"strings"
)

var builtinGhosts = []*GhostVar{
	{Name: "blockTime", Type: "int"},
	{Name: "bal", Type: "[str][str]int"},
	{Name: "supply", Type: "[str]int"},
	{Name: "evCount", Type: "int"},
	{Name: "evTag", Type: "[int]int"},
	{Name: "evRef", Type: "[int]int"},
	{Name: "blocked", Type: "[str]bool"},
}

func ghostT(st *State, name string) *Term { return st.Ghost[name].T }
func setGhostT(c *LibCtx, name string, t *Term) {
	t = c.x.defineAlways(c.st, t, "g:"+name)
	c.st.Ghost[name] = valOfSort(t)
}

func (x *Exec) defineAlways(st *State, t *Term, hint string) *Term {
	if t.K == TConst || t.K == TNum {
		return t
	}
	cst := Const(freshName("d:"+hint), t.Sort)
	st.PC = append(st.PC, Eq(cst, t))
	return cst
}

func modAddr(name *Term) *Term { return UF("modaddr", []string{SStr}, SStr, name) }
func validDenom(d *Term) *Term { return UF("validDenom", []string{SStr}, SBool, d) }

var zeroCoinsT = &Term{K: TApp, Op: "(as const (Array Str Int))", Args: []*Term{Num(0)}, Sort: sortStrArrInt}

func coinsVal(t *Term, typ types.Type) *Val {
	return &Val{K: VCoins, T: t, Typ: typ, IsDec: isDecType(typ)}
}

// coinsPointwise introduces a fresh array r with  forall d. r[d] = f(a[d], b[d]).
func coinsPointwise(c *LibCtx, hint string, f func(d *Term) *Term) *Term {
	r := Const(freshName("coins:"+hint), sortStrArrInt)
	d := Bound("d", SStr)
	c.st.Assume(Forall([]*Term{d}, Eq(Select(r, d), f(d)), []*Term{Select(r, d)}))
	return r
}

// coinsDenomsValid: every listed denomination of a Coins value passes sdk.ValidateDenom.
func coinsDenomsValid(a *Term) *Term {
	i := Bound("i", SInt)
	return Forall([]*Term{i}, Implies(And(Ge(i, Num(0)), Lt(i, CoinsLen(a))), validDenom(DenomAt(a, i))), []*Term{DenomAt(a, i)})
}

func coinsAllGE0(a *Term) *Term {
	d := Bound("d", SStr)
	return Forall([]*Term{d}, Ge(Select(a, d), Num(0)), []*Term{Select(a, d)})
}

// bankTransfer: err fresh; on success amounts move from -> to, else unchanged.
func bankTransfer(c *LibCtx, from, to *Term, amt *Val, extraFail *Term, fromModule ...bool) *Val {
	err := freshErr(c, "bankerr")
	ok := Eq(err.Tag, Num(0))
	bal := ghostT(c.st, "bal")
	// success requires sufficient (spendable <= total) balance
	d := Bound("d", SStr)
	sufficient := Forall([]*Term{d}, Ge(Select(Select(bal, from), d), Select(amt.T, d)), []*Term{Select(Select(bal, from), d)})
	c.st.Assume(Implies(ok, sufficient))
	if extraFail != nil {
		c.st.Assume(Implies(extraFail, Not(ok)))
	}
	if len(fromModule) > 0 && fromModule[0] {
		// a module account is never a vesting account, so everything it holds is spendable: SendCoins fails only on an
		// invalid amount, an insufficient balance, or (module-to-account) a blocked recipient (x/bank v0.46.10 send.go)
		cond := And(coinsAllGE0(amt.T), sufficient)
		if extraFail != nil {
			cond = And(cond, Not(extraFail))
		}
		c.st.Assume(Implies(cond, ok))
		c.st.Assume(Forall([]*Term{d}, Ge(Select(Select(bal, from), d), Num(0)), []*Term{Select(Select(bal, from), d)}))
	}
	nf := coinsPointwise(c, "from", func(d *Term) *Term { return Sub(Select(Select(bal, from), d), Select(amt.T, d)) })
	b1 := Store(bal, from, nf)
	nt := coinsPointwise(c, "to", func(d *Term) *Term { return Add(Select(Select(b1, to), d), Select(amt.T, d)) })
	b2 := Store(b1, to, nt)
	nb := Const(freshName("bal"), bal.Sort)
	c.st.Assume(Eq(nb, Ite(ok, b2, bal)))
	c.st.Ghost["bal"] = valOfSort(nb)
	// x/bank creates a base account for a recipient address that has none (and only then)
	if _, hasAuth := c.st.Ghost["accTag"]; hasAuth {
		at := c.x.authTypes()
		if at.base != nil {
			tags := ghostT(c.st, "accTag")
			idBase := Num(int64(typeID(types.NewPointer(at.base))))
			created := And(ok, Eq(Select(tags, to), Num(0)))
			setGhostT(c, "accTag", Store(tags, to, Ite(created, idBase, Select(tags, to))))
			for _, g := range []string{"accSeq", "accPub"} {
				arr := ghostT(c.st, g)
				setGhostT(c, g, Store(arr, to, Ite(created, Num(0), Select(arr, to))))
			}
		}
	}
	return err
}

func keeperKey(name string) string {
	// "(github.com/chain4energy/c4e-chain/x/<m>/types.BankKeeper).MintCoins" -> "keeper:BankKeeper.MintCoins"
	if !strings.HasPrefix(name, "("+repoModule) {
		return ""
	}
	i := strings.Index(name, "/types.")
	j := strings.Index(name, ").")
	if i < 0 || j < 0 || j < i {
		return ""
	}
	iface := name[i+len("/types.") : j]
	if !strings.HasSuffix(iface, "Keeper") {
		return ""
	}
	return "keeper:" + iface + "." + name[j+2:]
}

func init() {
	for _, g := range builtinGhosts {
		g.Pkg = "builtin"
	}
	C := "(" + pSdk + "Context)."
	reg(C+"BlockTime", func(c *LibCtx, a []*Val) *Val { return timeVal(ghostT(c.st, "blockTime"), c.resType(0)) })
	reg(C+"BlockHeader", func(c *LibCtx, a []*Val) *Val {
		h := freshVal(c.resType(0), "hdr", true)
		if i, ok := fieldIndex(h.Typ, "Time"); ok && h.K == VStruct {
			h.Fields[i] = timeVal(ghostT(c.st, "blockTime"), h.Fields[i].Typ)
		}
		return h
	})
	reg(C+"BlockHeight", func(c *LibCtx, a []*Val) *Val { return intVal(Const("ctx:height", SInt), c.resType(0)) })
	reg(C+"Logger", func(c *LibCtx, a []*Val) *Val {
		l := freshVal(c.resType(0), "logger", true)
		c.st.Assume(Gt(l.Tag, Num(0)))
		return l
	})
	reg(C+"EventManager", func(c *LibCtx, a []*Val) *Val {
		return &Val{K: VPtr, Typ: c.resType(0), T: Const("ctx:eventManager", SInt), Ptr: &PtrInfo{Base: PObj, Root: ptrElem(c.resType(0))}}
	})
	reg(C+"TxBytes", func(c *LibCtx, a []*Val) *Val { return strVal(Const("ctx:txBytes", SStr), c.resType(0)) })
	reg(pSdk+"UnwrapSDKContext", func(c *LibCtx, a []*Val) *Val { return opaqueVal(c.resType(0)) })
	reg(pSdk+"WrapSDKContext", func(c *LibCtx, a []*Val) *Val {
		r := freshVal(c.resType(0), "goctx", true)
		c.st.Assume(Gt(r.Tag, Num(0)))
		return r
	})
	reg("(*"+pSdk+"EventManager).EmitTypedEvent", func(c *LibCtx, a []*Val) *Val {
		// appends the event (type tag + reference to the message object) to the ghost event list
		ev := a[1]
		n := ghostT(c.st, "evCount")
		if ev.K == VIface {
			ref := ev.T
			// the event is marshalled at emission time: record a snapshot copy of the message object
			if ev.Tag.K == TNum {
				if T := typeIDTypes[int(ev.Tag.Num.Int64())]; T != nil && classify(T) == VPtr {
					et := ptrElem(T)
					cp := c.st.alloc()
					if err := c.st.storeObj(et, cp, "", c.st.loadObj(et, ev.T, "", et)); err == nil {
						ref = cp
					}
				}
			}
			setGhostT(c, "evTag", Store(ghostT(c.st, "evTag"), n, ev.Tag))
			setGhostT(c, "evRef", Store(ghostT(c.st, "evRef"), n, ref))
		}
		c.st.Ghost["evCount"] = valOfSort(Add(n, Num(1)))
		// EmitTypedEvent fails only if the message cannot be marshalled to JSON; assumed total for the repo's event types
		return nilErr()
	})
	reg("(*"+pSdk+"EventManager).EmitTypedEvents", func(c *LibCtx, a []*Val) *Val {
		c.x.note("EmitTypedEvents (variadic) not recorded in the ghost event list")
		return nilErr()
	})

	// ---------------- addresses ----------------
	reg(pSdk+"AccAddressFromBech32", func(c *LibCtx, a []*Val) *Val {
		err := freshErr(c, "bech32err")
		addr := strVal(UF("fromBech32", []string{SStr}, SStr, a[0].T), c.resType(0))
		// on success the address is non-empty and String() is the inverse
		c.st.Assume(Implies(Eq(err.Tag, Num(0)), And(Eq(UF("toBech32", []string{SStr}, SStr, addr.T), a[0].T), Gt(StrLen(addr.T), Num(0)))))
		// empty input is an error
		c.st.Assume(Implies(Eq(a[0].T, emptyStr), Neq(err.Tag, Num(0))))
		// whether a string decodes is a function of the string (bech32ok), so validation results carry over to later calls
		c.st.Assume(Eq(Eq(err.Tag, Num(0)), UF("bech32ok", []string{SStr}, SBool, a[0].T)))
		res := iteVal(Eq(err.Tag, Num(0)), addr, strVal(bytesNil, c.resType(0)))
		return &Val{K: VTuple, Typ: c.sig.Results(), Fields: []*Val{res, err}}
	})
	reg("("+pSdk+"AccAddress).String", func(c *LibCtx, a []*Val) *Val {
		return strVal(UF("toBech32", []string{SStr}, SStr, a[0].T), c.resType(0))
	})
	reg("("+pSdk+"AccAddress).Empty", func(c *LibCtx, a []*Val) *Val { return boolVal(Eq(StrLen(a[0].T), Num(0))) })
	reg("("+pSdk+"AccAddress).Equals", func(c *LibCtx, a []*Val) *Val {
		// the argument is an sdk.Address interface; when it holds an AccAddress the comparison is of the address bytes
		if o := a[1]; o.K == VIface && o.Tag != nil && o.Tag.K == TNum {
			if T := typeIDTypes[int(o.Tag.Num.Int64())]; T != nil && namedName(types.Unalias(T)) == tyAccAddr {
				if u := c.x.unbox(c.st, o, T); u != nil && u.K == VStr {
					return boolVal(Eq(a[0].T, u.T))
				}
			}
		}
		c.x.note("AccAddress.Equals: interface argument compared abstractly")
		return boolVal(Const(freshName("addrEq"), SBool))
	})
	reg("github.com/cosmos/cosmos-sdk/x/auth/types.NewModuleAddress", func(c *LibCtx, a []*Val) *Val {
		return strVal(modAddr(a[0].T), c.resType(0))
	})

	// ---------------- sdk.Coin / Coins ----------------
	newCoin := func(c *LibCtx, a []*Val) *Val {
		c.panicIf(Not(validDenom(a[0].T)), "NewCoin-invalid-denom")
		c.panicIf(Or(a[1].Nil, Lt(a[1].T, Num(0))), "NewCoin-negative-or-nil-amount")
		coin := zeroVal(c.resType(0))
		coin.Fields[0] = strVal(a[0].T, coin.Fields[0].Typ)
		coin.Fields[1] = bigVal(FalseT, a[1].T, coin.Fields[1].Typ)
		return coin
	}
	reg(pSdk+"NewCoin", newCoin)
	reg(pSdk+"ValidateDenom", func(c *LibCtx, a []*Val) *Val {
		err := freshErr(c, "denomErr")
		c.st.Assume(Eq(Eq(err.Tag, Num(0)), validDenom(a[0].T)))
		// a valid denom is never empty
		c.st.Assume(Implies(validDenom(a[0].T), Gt(StrLen(a[0].T), Num(0))))
		return err
	})
	reg(pSdk+"NewCoins", func(c *LibCtx, a []*Val) *Val {
		// variadic: a[0] is the []Coin slice built by the caller
		s := a[0]
		if s.K != VSlice || s.Len.K != TNum {
			c.x.note("NewCoins with a non-literal argument list")
			return coinsVal(Const(freshName("coins"), sortStrArrInt), c.resType(0))
		}
		et := sliceElem(s.Typ)
		arr := zeroCoinsT
		n := s.Len.Num.Int64()
		var denoms []*Term
		for i := int64(0); i < n; i++ {
			coin := c.st.loadElem(et, s.T, ElemIdx(s.Off, Num(i)), "", et)
			d, amt := coin.Fields[0].T, coin.Fields[1]
			c.panicIf(Or(amt.Nil, Lt(amt.T, Num(0)), Not(validDenom(d))), "NewCoins-invalid-coin")
			for _, p := range denoms {
				c.panicIf(Eq(p, d), "NewCoins-duplicate-denom")
			}
			denoms = append(denoms, d)
			arr = Store(arr, d, amt.T)
		}
		return coinsVal(arr, c.resType(0))
	})
	K := "(" + pSdk + "Coins)."
	reg(K+"AmountOf", func(c *LibCtx, a []*Val) *Val {
		c.panicIf(Not(validDenom(a[1].T)), "AmountOf-invalid-denom")
		return bigVal(FalseT, Select(a[0].T, a[1].T), c.resType(0))
	})
	reg(K+"Empty", func(c *LibCtx, a []*Val) *Val { return boolVal(Eq(a[0].T, zeroCoinsT)) })
	reg(K+"IsZero", func(c *LibCtx, a []*Val) *Val { return boolVal(Eq(a[0].T, zeroCoinsT)) })
	reg(K+"String", func(c *LibCtx, a []*Val) *Val { return strVal(Const(freshName("coinsStr"), SStr), c.resType(0)) })
	reg(K+"IsEqual", func(c *LibCtx, a []*Val) *Val { return boolVal(Eq(a[0].T, a[1].T)) })
	reg(K+"IsAllPositive", func(c *LibCtx, a []*Val) *Val {
		// canonical coins hold only positive amounts: all-positive iff non-empty
		return boolVal(And(Neq(a[0].T, zeroCoinsT), coinsAllGE0(a[0].T)))
	})
	reg(K+"IsAnyNegative", func(c *LibCtx, a []*Val) *Val { return boolVal(Not(coinsAllGE0(a[0].T))) })
	reg(K+"IsAnyNil", func(c *LibCtx, a []*Val) *Val {
		c.x.note("Coins.IsAnyNil: nil amounts inside a Coins value are not represented (pointwise-integer model)")
		return boolVal(Const(freshName("anyNil"), SBool))
	})
	reg(K+"Add", func(c *LibCtx, a []*Val) *Val {
		b := a[1]
		if b.K != VCoins {
			// variadic ...Coin: slice of Coin
			if b.K == VSlice && b.Len.K == TNum {
				et := sliceElem(b.Typ)
				arr := a[0].T
				for i := int64(0); i < b.Len.Num.Int64(); i++ {
					coin := c.st.loadElem(et, b.T, ElemIdx(b.Off, Num(i)), "", et)
					arr = Store(arr, coin.Fields[0].T, Add(Select(arr, coin.Fields[0].T), coin.Fields[1].T))
				}
				return coinsVal(arr, c.resType(0))
			}
			c.x.note("Coins.Add with unmodelled argument")
			return coinsVal(Const(freshName("coins"), sortStrArrInt), c.resType(0))
		}
		return coinsVal(coinsPointwise(c, "add", func(d *Term) *Term { return Add(Select(a[0].T, d), Select(b.T, d)) }), c.resType(0))
	})
	reg(K+"Sub", func(c *LibCtx, a []*Val) *Val {
		b := a[1]
		var r *Term
		if b.K == VCoins {
			r = coinsPointwise(c, "sub", func(d *Term) *Term { return Sub(Select(a[0].T, d), Select(b.T, d)) })
		} else if b.K == VSlice && b.Len.K == TNum {
			et := sliceElem(b.Typ)
			r = a[0].T
			for i := int64(0); i < b.Len.Num.Int64(); i++ {
				coin := c.st.loadElem(et, b.T, ElemIdx(b.Off, Num(i)), "", et)
				r = Store(r, coin.Fields[0].T, Sub(Select(r, coin.Fields[0].T), coin.Fields[1].T))
			}
			r = c.x.defineAlways(c.st, r, "sub")
		} else {
			c.x.note("Coins.Sub with unmodelled argument")
			return coinsVal(Const(freshName("coins"), sortStrArrInt), c.resType(0))
		}
		c.panicIf(Not(coinsAllGE0(r)), "Coins.Sub-negative-result")
		return coinsVal(r, c.resType(0))
	})
	reg(K+"IsAllLTE", func(c *LibCtx, a []*Val) *Val {
		d := Bound("d", SStr)
		return boolVal(Forall([]*Term{d}, Le(Select(a[0].T, d), Select(a[1].T, d)), []*Term{Select(a[0].T, d)}, []*Term{Select(a[1].T, d)}))
	})
	reg(K+"IsAllGTE", func(c *LibCtx, a []*Val) *Val {
		d := Bound("d", SStr)
		return boolVal(Forall([]*Term{d}, Ge(Select(a[0].T, d), Select(a[1].T, d)), []*Term{Select(a[0].T, d)}, []*Term{Select(a[1].T, d)}))
	})
	reg(K+"Validate", func(c *LibCtx, a []*Val) *Val {
		// sorted / duplicate-free / positive: canonical by construction in this model; only sign can fail
		err := freshErr(c, "coinsValidate")
		c.st.Assume(Implies(Eq(err.Tag, Num(0)), coinsAllGE0(a[0].T)))
		// Validate runs ValidateDenom on every entry
		c.st.Assume(Implies(Eq(err.Tag, Num(0)), coinsDenomsValid(a[0].T)))
		return err
	})
	reg(K+"Sort", func(c *LibCtx, a []*Val) *Val { return coinsVal(a[0].T, c.resType(0)) })
	reg(K+"Min", func(c *LibCtx, a []*Val) *Val {
		return coinsVal(coinsPointwise(c, "min", func(d *Term) *Term {
			x, y := Select(a[0].T, d), Select(a[1].T, d)
			return Ite(Le(x, y), x, y)
		}), c.resType(0))
	})
	reg(K+"Len", func(c *LibCtx, a []*Val) *Val {
		n := Const(freshName("coinslen"), SInt)
		c.st.Assume(Ge(n, Num(0)))
		c.st.Assume(Eq(Eq(n, Num(0)), Eq(a[0].T, zeroCoinsT)))
		return intVal(n, c.resType(0))
	})
	reg("("+pSdk+"Coin).String", func(c *LibCtx, a []*Val) *Val { return strVal(Const(freshName("coinStr"), SStr), c.resType(0)) })
	reg("("+pSdk+"Coin).IsZero", func(c *LibCtx, a []*Val) *Val {
		c.nonNil(a[0].Fields[1])
		return boolVal(Eq(a[0].Fields[1].T, Num(0)))
	})

	// ---------------- sdk.DecCoins (amounts scaled by 10^18) ----------------
	DC := "(" + pSdk + "DecCoins)."
	reg(pSdk+"NewDecCoins", func(c *LibCtx, a []*Val) *Val {
		s := a[0]
		if s.K == VSlice && s.Len.K == TNum && s.Len.Num.Sign() == 0 {
			return coinsVal(zeroCoinsT, c.resType(0))
		}
		if s.K == VSlice && s.T.K == TNum && s.T.Num.Sign() == 0 {
			return coinsVal(zeroCoinsT, c.resType(0))
		}
		c.x.note("NewDecCoins with arguments")
		return coinsVal(Const(freshName("deccoins"), sortStrArrInt), c.resType(0))
	})
	reg(pSdk+"NewDecCoinsFromCoins", func(c *LibCtx, a []*Val) *Val {
		s := a[0]
		if s.K == VCoins {
			return coinsVal(coinsPointwise(c, "dec", func(d *Term) *Term { return Mul(Select(s.T, d), P18) }), c.resType(0))
		}
		// variadic ...Coin holding a spread Coins value: the caller passes coins... (a Coins is a []Coin)
		c.x.note("NewDecCoinsFromCoins with unmodelled argument")
		return coinsVal(Const(freshName("deccoins"), sortStrArrInt), c.resType(0))
	})
	reg(DC+"Add", func(c *LibCtx, a []*Val) *Val {
		return coinsVal(coinsPointwise(c, "dadd", func(d *Term) *Term { return Add(Select(a[0].T, d), Select(a[1].T, d)) }), c.resType(0))
	})
	reg(DC+"Sub", func(c *LibCtx, a []*Val) *Val {
		r := coinsPointwise(c, "dsub", func(d *Term) *Term { return Sub(Select(a[0].T, d), Select(a[1].T, d)) })
		c.panicIf(Not(coinsAllGE0(r)), "DecCoins.Sub-negative-result")
		return coinsVal(r, c.resType(0))
	})
	reg(DC+"IsZero", func(c *LibCtx, a []*Val) *Val { return boolVal(Eq(a[0].T, zeroCoinsT)) })
	reg(DC+"Empty", func(c *LibCtx, a []*Val) *Val { return boolVal(Eq(a[0].T, zeroCoinsT)) })
	reg(DC+"IsAllPositive", func(c *LibCtx, a []*Val) *Val { return boolVal(And(Neq(a[0].T, zeroCoinsT), coinsAllGE0(a[0].T))) })
	reg(DC+"IsAnyNegative", func(c *LibCtx, a []*Val) *Val { return boolVal(Not(coinsAllGE0(a[0].T))) })
	reg(DC+"String", func(c *LibCtx, a []*Val) *Val { return strVal(Const(freshName("dcStr"), SStr), c.resType(0)) })
	reg(DC+"AmountOf", func(c *LibCtx, a []*Val) *Val { return bigVal(FalseT, Select(a[0].T, a[1].T), c.resType(0)) })
	reg(DC+"MulDecTruncate", func(c *LibCtx, a []*Val) *Val {
		c.nonNil(a[1])
		return coinsVal(coinsPointwise(c, "mdt", func(d *Term) *Term { return TruncP(Mul(Select(a[0].T, d), a[1].T)) }), c.resType(0))
	})
	reg(DC+"TruncateDecimal", func(c *LibCtx, a []*Val) *Val {
		tr := coinsPointwise(c, "trunc", func(d *Term) *Term { return TruncP(Select(a[0].T, d)) })
		ch := coinsPointwise(c, "change", func(d *Term) *Term { return Sub(Select(a[0].T, d), Mul(TruncP(Select(a[0].T, d)), P18)) })
		tu := c.sig.Results()
		return &Val{K: VTuple, Typ: tu, Fields: []*Val{coinsVal(tr, tu.At(0).Type()), coinsVal(ch, tu.At(1).Type())}}
	})
	reg("("+pSdk+"DecCoin).IsNegative", func(c *LibCtx, a []*Val) *Val {
		c.nonNil(a[0].Fields[1])
		return boolVal(Lt(a[0].Fields[1].T, Num(0)))
	})

	// ---------------- x/bank (assumed contract, cosmos-sdk v0.46.10) ----------------
	B := "keeper:BankKeeper."
	reg(B+"MintCoins", func(c *LibCtx, a []*Val) *Val {
		// a: recv, ctx, module, coins. Panics if the module account is unknown or lacks the Minter permission.
		mod, amt := a[2], a[3]
		c.panicIf(Not(UF("hasPerm", []string{SStr, SStr}, SBool, mod.T, strLit("minter"))), "MintCoins-module-without-minter-permission")
		err := freshErr(c, "minterr")
		ok := Eq(err.Tag, Num(0))
		// addCoins fails only on an invalid (here: negative) amount; balances are never negative (x/bank v0.46.10 keeper.go)
		c.st.Assume(Eq(ok, coinsAllGE0(amt.T)))
		bal, sup := ghostT(c.st, "bal"), ghostT(c.st, "supply")
		addr := modAddr(mod.T)
		{
			dd := Bound("d", SStr)
			c.st.Assume(Forall([]*Term{dd}, Ge(Select(Select(bal, addr), dd), Num(0)), []*Term{Select(Select(bal, addr), dd)}))
		}
		nb := coinsPointwise(c, "minted", func(d *Term) *Term { return Add(Select(Select(bal, addr), d), Select(amt.T, d)) })
		ns := coinsPointwise(c, "supply", func(d *Term) *Term { return Add(Select(sup, d), Select(amt.T, d)) })
		b2, s2 := Const(freshName("bal"), bal.Sort), Const(freshName("supply"), sup.Sort)
		c.st.Assume(Eq(b2, Ite(ok, Store(bal, addr, nb), bal)))
		c.st.Assume(Eq(s2, Ite(ok, ns, sup)))
		c.st.Ghost["bal"], c.st.Ghost["supply"] = valOfSort(b2), valOfSort(s2)
		return err
	})
	reg(B+"BurnCoins", func(c *LibCtx, a []*Val) *Val {
		mod, amt := a[2], a[3]
		c.panicIf(Not(UF("hasPerm", []string{SStr, SStr}, SBool, mod.T, strLit("burner"))), "BurnCoins-module-without-burner-permission")
		err := freshErr(c, "burnerr")
		ok := Eq(err.Tag, Num(0))
		bal, sup := ghostT(c.st, "bal"), ghostT(c.st, "supply")
		addr := modAddr(mod.T)
		d := Bound("d", SStr)
		c.st.Assume(Implies(ok, Forall([]*Term{d}, Ge(Select(Select(bal, addr), d), Select(amt.T, d)), []*Term{Select(Select(bal, addr), d)})))
		nb := coinsPointwise(c, "burned", func(d *Term) *Term { return Sub(Select(Select(bal, addr), d), Select(amt.T, d)) })
		ns := coinsPointwise(c, "supply", func(d *Term) *Term { return Sub(Select(sup, d), Select(amt.T, d)) })
		b2, s2 := Const(freshName("bal"), bal.Sort), Const(freshName("supply"), sup.Sort)
		c.st.Assume(Eq(b2, Ite(ok, Store(bal, addr, nb), bal)))
		c.st.Assume(Eq(s2, Ite(ok, ns, sup)))
		c.st.Ghost["bal"], c.st.Ghost["supply"] = valOfSort(b2), valOfSort(s2)
		return err
	})
	moduleExists := func(m *Term) *Term { return UF("moduleExists", []string{SStr}, SBool, m) }
	reg(B+"SendCoinsFromModuleToModule", func(c *LibCtx, a []*Val) *Val {
		// panics if either module account does not exist
		c.panicIf(Not(moduleExists(a[2].T)), "SendCoinsFromModuleToModule-unknown-sender-module")
		c.panicIf(Not(moduleExists(a[3].T)), "SendCoinsFromModuleToModule-unknown-recipient-module")
		return bankTransfer(c, modAddr(a[2].T), modAddr(a[3].T), a[4], nil, true)
	})
	reg(B+"SendCoinsFromModuleToAccount", func(c *LibCtx, a []*Val) *Val {
		c.panicIf(Not(moduleExists(a[2].T)), "SendCoinsFromModuleToAccount-unknown-sender-module")
		return bankTransfer(c, modAddr(a[2].T), a[3].T, a[4], Select(ghostT(c.st, "blocked"), a[3].T), true)
	})
	reg(B+"SendCoinsFromAccountToModule", func(c *LibCtx, a []*Val) *Val {
		c.panicIf(Not(moduleExists(a[3].T)), "SendCoinsFromAccountToModule-unknown-recipient-module")
		return bankTransfer(c, a[2].T, modAddr(a[3].T), a[4], nil)
	})
	reg(B+"SendCoins", func(c *LibCtx, a []*Val) *Val { return bankTransfer(c, a[2].T, a[3].T, a[4], nil) })
	reg(B+"GetSupply", func(c *LibCtx, a []*Val) *Val {
		coin := zeroVal(c.resType(0))
		coin.Fields[0] = strVal(a[2].T, coin.Fields[0].Typ)
		coin.Fields[1] = bigVal(FalseT, Select(ghostT(c.st, "supply"), a[2].T), coin.Fields[1].Typ)
		return coin
	})
	reg(B+"GetBalance", func(c *LibCtx, a []*Val) *Val {
		coin := zeroVal(c.resType(0))
		coin.Fields[0] = strVal(a[3].T, coin.Fields[0].Typ)
		coin.Fields[1] = bigVal(FalseT, Select(Select(ghostT(c.st, "bal"), a[2].T), a[3].T), coin.Fields[1].Typ)
		return coin
	})
	reg(B+"GetAllBalances", func(c *LibCtx, a []*Val) *Val {
		// x/bank never stores a negative balance: the returned coins are valid
		r := Select(ghostT(c.st, "bal"), a[2].T)
		c.st.Assume(coinsAllGE0(r))
		return coinsVal(r, c.resType(0))
	})
	reg(B+"SpendableCoins", func(c *LibCtx, a []*Val) *Val {
		// spendable = balance - locked, 0 <= spendable <= balance
		sp := Const(freshName("spendable"), sortStrArrInt)
		d := Bound("d", SStr)
		balA := Select(ghostT(c.st, "bal"), a[2].T)
		c.st.Assume(Forall([]*Term{d}, And(Ge(Select(sp, d), Num(0)), Le(Select(sp, d), Select(balA, d))), []*Term{Select(sp, d)}))
		return coinsVal(sp, c.resType(0))
	})
	reg(B+"LockedCoins", func(c *LibCtx, a []*Val) *Val {
		// what x/bank reports as locked is a function of the account and the block time (the vesting schedule of x/auth): an
		// uninterpreted function of the account view, so that a contract can name "the locked coins at entry" (bankLocked(a))
		lk := bankLockedTerm(c.st, a[2].T)
		d := Bound("d", SStr)
		balA := Select(ghostT(c.st, "bal"), a[2].T)
		c.st.Assume(Forall([]*Term{d}, And(Ge(Select(lk, d), Num(0)), Le(Select(lk, d), Select(balA, d))), []*Term{Select(lk, d)}))
		c.st.Assume(coinsDenomsValid(lk)) // coins held by x/bank have valid denominations
		return coinsVal(lk, c.resType(0))
	})
	reg(B+"BlockedAddr", func(c *LibCtx, a []*Val) *Val { return boolVal(Select(ghostT(c.st, "blocked"), a[1].T)) })
	reg(B+"IsSendEnabledCoins", func(c *LibCtx, a []*Val) *Val { return freshErr(c, "sendEnabledErr") })
	reg("keeper:StakingKeeper.BondedRatio", func(c *LibCtx, a []*Val) *Val {
		return bigVal(FalseT, Const(freshName("bondedRatio"), SInt), c.resType(0))
	})
	reg("keeper:StakingKeeper.BondDenom", func(c *LibCtx, a []*Val) *Val { return strVal(Const("staking:bondDenom", SStr), c.resType(0)) })
	for _, n := range []string{"MintCoins", "BurnCoins"} {
		libGhostWrites[B+n] = []string{"bal", "supply"}
	}
	for _, n := range []string{"SendCoinsFromModuleToModule", "SendCoinsFromModuleToAccount", "SendCoinsFromAccountToModule", "SendCoins"} {
		libGhostWrites[B+n] = []string{"bal", "accTag", "accSeq", "accPub"}
	}
	libGhostWrites["(*"+pSdk+"EventManager).EmitTypedEvent"] = []string{"evCount", "evTag", "evRef"}
}

func bankLockedTerm(st *State, addr *Term) *Term {
	var args []*Term
	var sorts []string
	for _, g := range []string{"accTag", "accOV", "accDV", "accStart", "accEnd", "blockTime"} {
		t := ghostT(st, g)
		args = append(args, t)
		sorts = append(sorts, t.Sort)
	}
	args = append(args, addr)
	sorts = append(sorts, SStr)
	return UF("bankLocked", sorts, sortStrArrInt, args...)
}

var bytesNil = Const("bytes:nil", SStr)

func init() {
	anyT := "(*github.com/cosmos/cosmos-sdk/codec/types.Any)."
	reg(anyT+"GetCachedValue", func(c *LibCtx, a []*Val) *Val {
		p := a[0]
		rt := c.resType(0)
		if p.K != VPtr || p.Ptr.Base != PObj {
			return freshVal(rt, "cached", true)
		}
		i, ok := fieldIndex(p.Ptr.Root, "cachedValue")
		if !ok {
			return freshVal(rt, "cached", true)
		}
		np := *p
		pi := *p.Ptr
		pi.Path = append(append([]int(nil), p.Ptr.Path...), i)
		np.Ptr = &pi
		v := c.x.loadNoCheck(c.st, &np)
		nilI := &Val{K: VIface, Typ: rt, Tag: Num(0), T: Num(0)}
		r := iteVal(Eq(p.T, Num(0)), nilI, v)
		r.Typ = rt
		return r
	})
	reg(anyT+"GetTypeUrl", func(c *LibCtx, a []*Val) *Val {
		// generated getter: nil receiver returns ""
		return strVal(Const(freshName("typeUrl"), SStr), c.resType(0))
	})
}
