package main

// Contract language: lexer, parser and AST. Contracts live in //@ comment
// lines of zz_contracts_verif.go files inside the /repo package they describe.

import (
	"fmt"
	"math/big"
	"strings"
	"unicode"
)

type bigInt = big.Int

// ---------- expression AST ----------

type SExpr interface{ sexpr() }

type (
	SIdent  struct{ Name string }
	SNum    struct{ Val *big.Int }
	SStrLit struct{ S string }
	SBoolL  struct{ B bool }
	SNil    struct{}
	SUnary  struct {
		Op string
		X  SExpr
	}
	SBinary struct {
		Op   string
		X, Y SExpr
	}
	SCall struct {
		Fun  SExpr
		Args []SExpr
	}
	SSelect struct {
		X     SExpr
		Field string
	}
	SIndex struct{ X, Idx SExpr }
	SQuant struct {
		Kind string // forall | exists
		Vars []SParam
		Body SExpr
		Pats [][]SExpr
	}
	SIte struct{ C, A, B SExpr }
	SLet struct {
		Name string
		Val  SExpr
		Body SExpr
	}
)

func (SIdent) sexpr()  {}
func (SNum) sexpr()    {}
func (SStrLit) sexpr() {}
func (SBoolL) sexpr()   {}
func (SNil) sexpr()    {}
func (SUnary) sexpr()  {}
func (SBinary) sexpr() {}
func (SCall) sexpr()   {}
func (SSelect) sexpr() {}
func (SIndex) sexpr()  {}
func (SQuant) sexpr()  {}
func (SIte) sexpr()    {}
func (SLet) sexpr()    {}

type SParam struct {
	Name string
	Type string // int | bool | str | [int]int ...
}

// ---------- declarations ----------

type SpecFunc struct {
	Name    string
	Params  []SParam
	Ret     string
	Body    SExpr // nil: uninterpreted
	Opaque  bool  // axiom only added under `reveal`
	Pkg     string
	Trigger [][]SExpr
}

type Lemma struct {
	Name      string
	Params    []SParam
	Induction string // parameter name, or ""
	Generalize bool  // induction hypothesis quantified over the other parameters
	Requires  []SExpr
	Ensures   []SExpr
	Reveal    []string
	Opaque    []string
	Uses      []SExpr // lemma applications usable in the proof
	Props     []string
	Pkg       string
	Trigger   [][]SExpr // when used as a quantified axiom
	Expect    string    // "" or "fail" (canary: must be refuted)
	Fuel      int       // unfolding depth of recursive spec functions (0: default)
}

type GhostVar struct {
	Name string
	Type string // spec type ([str][str]int ...) or "go:<qualified Go type>"
	Pkg  string
}

type Clause struct {
	E    SExpr
	Text string
	Tag  string // optional label
}

type FuncContract struct {
	Pkg      string
	Recv     string // receiver type name without *, "" for plain functions
	RecvName string
	Name     string
	Params   []string
	Results  []string
	Trusted  bool
	Requires []Clause
	Ensures  []Clause
	Reach    []Clause // acceptance witnesses: some return path satisfies the clause
	Modifies []SExpr
	Decr     SExpr
	Reveal   []string
	Opaque   []string
	Uses     []SExpr // lemma applications assumed at function entry (pre-state)
	UsesPost []SExpr // lemma applications added as hypotheses of the post obligations
	PanicRequires []Clause // extra preconditions under which the function is claimed not to panic (C10/C20 checks only)
	Props    []string
	Panics   SExpr // panics_when
	Inline   bool  // force use of body at call sites (no contract abstraction)
	NoPanic  bool
	Loops    map[int]*LoopContract
	Line     int
	Cover    bool
	MayPanic bool // trusted callee that may panic under stated condition only
	Fuel     int  // unfolding depth of recursive spec functions (0: default)
	Exempt   []string
}

type LoopContract struct {
	Invariants []Clause
	Decr       SExpr
	Uses       []SExpr
}

func (c *FuncContract) Key() string {
	if c.Recv != "" {
		return c.Pkg + "." + c.Recv + "." + c.Name
	}
	return c.Pkg + "." + c.Name
}

type SpecFile struct {
	ArgOrders []ArgOrderDecl
	Effects []EffectDecl
	Pkg    string
	Funcs  []*FuncContract
	Specs  []*SpecFunc
	Lemmas []*Lemma
	Ghosts []*GhostVar
}

// ---------- lexer ----------

type tok struct {
	kind string // ident num str op eof
	s    string
	pos  int
}

func lex(src string) ([]tok, error) {
	var toks []tok
	i := 0
	for i < len(src) {
		c := rune(src[i])
		switch {
		case unicode.IsSpace(c):
			i++
		case unicode.IsLetter(c) || c == '_' || c == '$' || c == '\\':
			j := i + 1
			for j < len(src) && (unicode.IsLetter(rune(src[j])) || unicode.IsDigit(rune(src[j])) || src[j] == '_') {
				j++
			}
			toks = append(toks, tok{"ident", src[i:j], i})
			i = j
		case unicode.IsDigit(c):
			j := i
			for j < len(src) && (unicode.IsDigit(rune(src[j])) || src[j] == '_') {
				j++
			}
			// 1e18 style
			if j < len(src) && src[j] == 'e' && j+1 < len(src) && unicode.IsDigit(rune(src[j+1])) {
				j++
				for j < len(src) && unicode.IsDigit(rune(src[j])) {
					j++
				}
			}
			toks = append(toks, tok{"num", src[i:j], i})
			i = j
		case c == '"':
			j := i + 1
			for j < len(src) && src[j] != '"' {
				j++
			}
			if j >= len(src) {
				return nil, fmt.Errorf("unterminated string at %d", i)
			}
			toks = append(toks, tok{"str", src[i+1 : j], i})
			i = j + 1
		default:
			ops := []string{"<==>", "==>", "::", "==", "!=", "<=", ">=", "&&", "||", "(", ")", "[", "]", "{", "}", ",", ".", "+", "-", "*", "/", "%", "<", ">", "!", "?", ":", "=", "#", ";"}
			matched := false
			for _, op := range ops {
				if strings.HasPrefix(src[i:], op) {
					toks = append(toks, tok{"op", op, i})
					i += len(op)
					matched = true
					break
				}
			}
			if !matched {
				return nil, fmt.Errorf("unexpected character %q at %d", c, i)
			}
		}
	}
	toks = append(toks, tok{"eof", "", len(src)})
	return toks, nil
}

// ---------- parser ----------

type specParser struct {
	toks []tok
	p    int
	src  string
}

func (p *specParser) peek() tok { return p.toks[p.p] }
func (p *specParser) next() tok { t := p.toks[p.p]; p.p++; return t }
func (p *specParser) isOp(s string) bool {
	t := p.peek()
	return t.kind == "op" && t.s == s
}
func (p *specParser) isIdent(s string) bool {
	t := p.peek()
	return t.kind == "ident" && t.s == s
}
func (p *specParser) expectOp(s string) {
	t := p.next()
	if t.kind != "op" || t.s != s {
		p.fail("expected %q, got %q", s, t.s)
	}
}
func (p *specParser) expectIdent() string {
	t := p.next()
	if t.kind != "ident" {
		p.fail("expected identifier, got %q", t.s)
	}
	return t.s
}
func (p *specParser) fail(f string, a ...interface{}) {
	pos := p.peek().pos
	lo := pos - 40
	if lo < 0 {
		lo = 0
	}
	hi := pos + 20
	if hi > len(p.src) {
		hi = len(p.src)
	}
	panic(fmt.Errorf("spec parse error: %s near %q", fmt.Sprintf(f, a...), p.src[lo:hi]))
}

func parseExpr(src string) (e SExpr, err error) {
	toks, err := lex(src)
	if err != nil {
		return nil, err
	}
	p := &specParser{toks: toks, src: src}
	defer func() {
		if r := recover(); r != nil {
			if pe, ok := r.(error); ok {
				err = pe
				return
			}
			panic(r)
		}
	}()
	e = p.expr()
	if p.peek().kind != "eof" {
		p.fail("trailing input")
	}
	return e, nil
}

// precedence (low→high): <==>, ==> (right), ?:, ||, &&, comparison, + -, * / %, unary, postfix
func (p *specParser) expr() SExpr {
	if p.isIdent("forall") || p.isIdent("exists") {
		return p.quant()
	}
	if p.isIdent("let") {
		p.next()
		name := p.expectIdent()
		p.expectOp("=")
		v := p.expr()
		if !p.isIdent("in") {
			p.fail("expected 'in'")
		}
		p.next()
		body := p.expr()
		return SLet{name, v, body}
	}
	return p.iff()
}

func (p *specParser) quant() SExpr {
	kind := p.next().s
	var vars []SParam
	for {
		name := p.expectIdent()
		typ := "int"
		if p.isOp(":") {
			p.next()
			typ = p.typeName()
		}
		vars = append(vars, SParam{name, typ})
		if p.isOp(",") {
			p.next()
			continue
		}
		break
	}
	p.expectOp("::")
	var pats [][]SExpr
	for p.isOp("{") {
		p.next()
		var pat []SExpr
		for {
			pat = append(pat, p.iff())
			if p.isOp(",") {
				p.next()
				continue
			}
			break
		}
		p.expectOp("}")
		pats = append(pats, pat)
	}
	body := p.expr()
	return SQuant{kind, vars, body, pats}
}

func (p *specParser) typeName() string {
	if p.isOp("[") {
		p.next()
		k := p.typeName()
		p.expectOp("]")
		v := p.typeName()
		return "[" + k + "]" + v
	}
	return p.expectIdent()
}

func (p *specParser) iff() SExpr {
	x := p.implies()
	for p.isOp("<==>") {
		p.next()
		y := p.implies()
		x = SBinary{"<==>", x, y}
	}
	return x
}

func (p *specParser) implies() SExpr {
	x := p.cond()
	if p.isOp("==>") {
		p.next()
		var y SExpr
		if p.isIdent("forall") || p.isIdent("exists") || p.isIdent("let") {
			y = p.expr()
		} else {
			y = p.implies()
		}
		return SBinary{"==>", x, y}
	}
	return x
}

func (p *specParser) cond() SExpr {
	c := p.or()
	if p.isOp("?") {
		p.next()
		a := p.cond()
		p.expectOp(":")
		b := p.cond()
		return SIte{c, a, b}
	}
	return c
}

func (p *specParser) or() SExpr {
	x := p.and()
	for p.isOp("||") {
		p.next()
		x = SBinary{"||", x, p.and()}
	}
	return x
}
func (p *specParser) and() SExpr {
	x := p.cmp()
	for p.isOp("&&") {
		p.next()
		x = SBinary{"&&", x, p.cmp()}
	}
	return x
}
func (p *specParser) cmp() SExpr {
	x := p.sum()
	// chained comparisons a <= b < c
	var res SExpr
	for {
		t := p.peek()
		if t.kind == "op" && (t.s == "==" || t.s == "!=" || t.s == "<" || t.s == "<=" || t.s == ">" || t.s == ">=") {
			p.next()
			y := p.sum()
			c := SBinary{t.s, x, y}
			if res == nil {
				res = c
			} else {
				res = SBinary{"&&", res, c}
			}
			x = y
			continue
		}
		break
	}
	if res != nil {
		return res
	}
	return x
}
func (p *specParser) sum() SExpr {
	x := p.prod()
	for p.isOp("+") || p.isOp("-") {
		op := p.next().s
		x = SBinary{op, x, p.prod()}
	}
	return x
}
func (p *specParser) prod() SExpr {
	x := p.unary()
	for p.isOp("*") || p.isOp("/") || p.isOp("%") {
		op := p.next().s
		x = SBinary{op, x, p.unary()}
	}
	return x
}
func (p *specParser) unary() SExpr {
	if p.isOp("!") || p.isOp("-") || p.isOp("*") {
		op := p.next().s
		return SUnary{op, p.unary()}
	}
	return p.postfix()
}
func (p *specParser) postfix() SExpr {
	x := p.primary()
	for {
		switch {
		case p.isOp("."):
			p.next()
			x = SSelect{x, p.expectIdent()}
		case p.isOp("["):
			p.next()
			i := p.expr()
			p.expectOp("]")
			x = SIndex{x, i}
		case p.isOp("("):
			p.next()
			var args []SExpr
			for !p.isOp(")") {
				args = append(args, p.expr())
				if p.isOp(",") {
					p.next()
				}
			}
			p.expectOp(")")
			x = SCall{x, args}
		default:
			return x
		}
	}
}
func (p *specParser) primary() SExpr {
	t := p.next()
	switch t.kind {
	case "num":
		s := strings.ReplaceAll(t.s, "_", "")
		if i := strings.IndexByte(s, 'e'); i >= 0 {
			m, _ := new(big.Int).SetString(s[:i], 10)
			var e int
			fmt.Sscanf(s[i+1:], "%d", &e)
			return SNum{new(big.Int).Mul(m, new(big.Int).Exp(big.NewInt(10), big.NewInt(int64(e)), nil))}
		}
		n, ok := new(big.Int).SetString(s, 10)
		if !ok {
			p.fail("bad number %s", t.s)
		}
		return SNum{n}
	case "str":
		return SStrLit{t.s}
	case "ident":
		switch t.s {
		case "true":
			return SBoolL{true}
		case "false":
			return SBoolL{false}
		case "nil":
			return SNil{}
		}
		return SIdent{t.s}
	case "op":
		if t.s == "(" {
			e := p.expr()
			p.expectOp(")")
			return e
		}
	}
	p.p--
	p.fail("unexpected token %q", t.s)
	return nil
}

// ---------- declaration parsing ----------

var clauseKeywords = map[string]bool{
	"requires": true, "ensures": true, "reach": true, "modifies": true, "decreases": true, "reveal": true, "opaque": true,
	"uses": true, "prop": true, "trusted": true, "invariant": true, "panics_when": true, "inline": true,
	"induction": true, "trigger": true, "expect": true, "fuel": true, "exempt": true, "cover": true, "nopanic": true, "uses_post": true, "panic_requires": true,
}
var declKeywords = map[string]bool{"spec": true, "lemma": true, "ghost": true, "func": true, "loop": true, "pred": true, "effects": true, "package-effects": true, "argorder": true, "callorder": true}

// parseSpecText parses the concatenated //@ lines of one package.
func parseSpecText(pkg string, lines []string) (sf *SpecFile, err error) {
	sf = &SpecFile{Pkg: pkg}
	defer func() {
		if r := recover(); r != nil {
			if pe, ok := r.(error); ok {
				err = pe
				return
			}
			panic(r)
		}
	}()
	// group lines into items: a new item starts at a decl or clause keyword
	type item struct {
		kw   string
		text string
	}
	var items []item
	for _, ln := range lines {
		s := strings.TrimSpace(ln)
		if s == "" || strings.HasPrefix(s, "//") {
			continue
		}
		if i := strings.Index(s, " //"); i >= 0 && !strings.Contains(s[:i], "\"") {
			s = strings.TrimSpace(s[:i])
		}
		first := s
		if i := strings.IndexAny(s, " \t("); i >= 0 {
			first = s[:i]
		}
		if declKeywords[first] || clauseKeywords[first] {
			items = append(items, item{first, strings.TrimSpace(s[len(first):])})
		} else {
			if len(items) == 0 {
				panic(fmt.Errorf("spec: continuation line without a clause: %q", s))
			}
			items[len(items)-1].text += " " + s
		}
	}
	var curF *FuncContract
	var curL *Lemma
	var curLoop *LoopContract
	var curS *SpecFunc
	funcsByName := map[string]*FuncContract{}
	mustExpr := func(s string) SExpr {
		e, err := parseExpr(s)
		if err != nil {
			panic(fmt.Errorf("%v (in package %s)", err, pkg))
		}
		return e
	}
	exprList := func(s string) []SExpr {
		var out []SExpr
		if t := strings.TrimSpace(s); strings.HasPrefix(t, "forall ") || strings.HasPrefix(t, "exists ") {
			// a quantified clause is one expression (its variable list contains top-level commas)
			return []SExpr{mustExpr(t)}
		}
		for _, part := range splitTop(s, ',') {
			part = strings.TrimSpace(part)
			if part != "" {
				out = append(out, mustExpr(part))
			}
		}
		return out
	}
	names := func(s string) []string {
		var out []string
		for _, f := range strings.FieldsFunc(s, func(r rune) bool { return r == ',' || r == ' ' }) {
			out = append(out, f)
		}
		return out
	}
	for _, it := range items {
		switch it.kw {
		case "spec", "pred":
			curF, curL, curLoop = nil, nil, nil
			text := it.text
			sfun := &SpecFunc{Pkg: pkg}
			if it.kw == "spec" {
				if strings.HasPrefix(text, "opaque ") {
					sfun.Opaque = true
					text = strings.TrimSpace(text[len("opaque "):])
				}
				if !strings.HasPrefix(text, "func ") {
					panic(fmt.Errorf("spec: expected 'spec func': %q", it.text))
				}
				text = strings.TrimSpace(text[len("func "):])
			}
			// name(params) ret [= body]
			lp := strings.IndexByte(text, '(')
			rp := matchParen(text, lp)
			sfun.Name = strings.TrimSpace(text[:lp])
			sfun.Params = parseParams(text[lp+1 : rp])
			rest := strings.TrimSpace(text[rp+1:])
			if it.kw == "pred" {
				sfun.Ret = "bool"
				predSet[sfun] = true
			}
			if eq := strings.Index(rest, "="); eq >= 0 && !strings.HasPrefix(rest[eq:], "==") {
				if r := strings.TrimSpace(rest[:eq]); r != "" {
					sfun.Ret = r
				}
				sfun.Body = mustExpr(rest[eq+1:])
			} else if rest != "" {
				sfun.Ret = rest
			}
			if sfun.Ret == "" {
				sfun.Ret = "int"
			}
			sf.Specs = append(sf.Specs, sfun)
			curS = sfun
		case "effects":
			curF, curL, curLoop, curS = nil, nil, nil, nil
			fs := strings.Fields(it.text)
			if len(fs) < 1 {
				panic(fmt.Errorf("spec: effects needs a function"))
			}
			sf.Effects = append(sf.Effects, EffectDecl{Key: pkg + "." + fs[0], Effects: fs[1:]})
		case "argorder":
			// argorder <property> <function> <called method> a b c ...: in <function>, the call of <called method> lists the
			// string constants a, b, c (among its arguments) in this relative order
			curF, curL, curLoop, curS = nil, nil, nil, nil
			fs := strings.Fields(it.text)
			if len(fs) < 5 {
				panic(fmt.Errorf("spec: argorder <property> <function> <method> <name> <name> ..."))
			}
			sf.ArgOrders = append(sf.ArgOrders, ArgOrderDecl{Prop: fs[0], Func: pkg + "." + fs[1], Method: fs[2], Names: fs[3:]})
		case "callorder":
			// callorder <property[,property]> <function> f g h ...: in <function> (and the function literals in it) each of f, g, h
			// is called and every call of a later one is dominated by a call of the one before it
			curF, curL, curLoop, curS = nil, nil, nil, nil
			fs := strings.Fields(it.text)
			if len(fs) < 4 {
				panic(fmt.Errorf("spec: callorder <property> <function> <callee> <callee> ..."))
			}
			sf.ArgOrders = append(sf.ArgOrders, ArgOrderDecl{Calls: true, Prop: fs[0], Func: pkg + "." + fs[1], Names: fs[2:]})
		case "package-effects":
			curF, curL, curLoop, curS = nil, nil, nil, nil
			sf.Effects = append(sf.Effects, EffectDecl{Key: "package:" + pkg, Effects: strings.Fields(it.text)})
		case "ghost":
			curF, curL, curLoop, curS = nil, nil, nil, nil
			fs := strings.Fields(it.text)
			if len(fs) < 2 {
				panic(fmt.Errorf("spec: ghost needs name and type: %q", it.text))
			}
			sf.Ghosts = append(sf.Ghosts, &GhostVar{Name: fs[0], Type: strings.Join(fs[1:], " "), Pkg: pkg})
		case "lemma":
			curF, curLoop, curS = nil, nil, nil
			text := it.text
			lp := strings.IndexByte(text, '(')
			rp := matchParen(text, lp)
			curL = &Lemma{Name: strings.TrimSpace(text[:lp]), Params: parseParams(text[lp+1 : rp]), Pkg: pkg}
			sf.Lemmas = append(sf.Lemmas, curL)
		case "func":
			curL, curLoop, curS = nil, nil, nil
			curF = parseFuncHeader(pkg, it.text)
			curF.Loops = map[int]*LoopContract{}
			if _, dup := funcsByName[curF.Key()]; dup {
				panic(fmt.Errorf("spec: duplicate contract for %s", curF.Key()))
			}
			funcsByName[curF.Key()] = curF
			sf.Funcs = append(sf.Funcs, curF)
		case "loop":
			curL, curS = nil, nil
			// loop Func#N   or   loop Recv.Func#N
			fs := strings.SplitN(it.text, "#", 2)
			if len(fs) != 2 {
				panic(fmt.Errorf("spec: loop needs Func#N: %q", it.text))
			}
			var n int
			fmt.Sscanf(strings.TrimSpace(fs[1]), "%d", &n)
			key := pkg + "." + strings.TrimSpace(fs[0])
			f, ok := funcsByName[key]
			if !ok {
				panic(fmt.Errorf("spec: loop for unknown contract %s (declare the func contract first)", key))
			}
			curF = f
			curLoop = &LoopContract{}
			f.Loops[n] = curLoop
		case "requires":
			c := Clause{E: mustExpr(it.text), Text: it.text}
			if curL != nil {
				curL.Requires = append(curL.Requires, c.E)
			} else if curF != nil {
				curF.Requires = append(curF.Requires, c)
			} else {
				panic(fmt.Errorf("spec: stray requires"))
			}
		case "ensures":
			text, tag := it.text, ""
			if strings.HasPrefix(text, "[") {
				if j := strings.Index(text, "]"); j > 0 {
					tag = strings.TrimSpace(text[1:j])
					text = strings.TrimSpace(text[j+1:])
				}
			}
			c := Clause{E: mustExpr(text), Text: text, Tag: tag}
			if curL != nil {
				curL.Ensures = append(curL.Ensures, c.E)
			} else if curF != nil {
				curF.Ensures = append(curF.Ensures, c)
			} else {
				panic(fmt.Errorf("spec: stray ensures"))
			}
		case "reach":
			// reach [label] expr: some explored return of the function satisfies expr (an acceptance witness: evaluated at the
			// return, where the function's locals are in scope as well as parameters and results)
			text, tag := it.text, ""
			if strings.HasPrefix(text, "[") {
				if j := strings.Index(text, "]"); j > 0 {
					tag = strings.TrimSpace(text[1:j])
					text = strings.TrimSpace(text[j+1:])
				}
			}
			if curF == nil {
				panic(fmt.Errorf("spec: stray reach"))
			}
			curF.Reach = append(curF.Reach, Clause{E: mustExpr(text), Text: text, Tag: tag})
		case "invariant":
			if curLoop == nil {
				panic(fmt.Errorf("spec: invariant outside loop"))
			}
			curLoop.Invariants = append(curLoop.Invariants, Clause{E: mustExpr(it.text), Text: it.text})
		case "exempt":
			// exempt C09: the function belongs to a governance-approved upgrade, where C09's call-site obligation on SetAccount
			// (never alter an existing account) does not apply; recorded as an abstraction in the report
			if curF == nil {
				panic(fmt.Errorf("spec: stray exempt"))
			}
			curF.Exempt = append(curF.Exempt, names(it.text)...)
		case "fuel":
			// unfolding depth of recursive spec functions for this unit's obligations (default 2)
			n := 0
			fmt.Sscanf(strings.TrimSpace(it.text), "%d", &n)
			if n < 1 || n > 8 {
				panic(fmt.Errorf("spec: fuel must be 1..8"))
			}
			if curL != nil {
				curL.Fuel = n
			} else if curF != nil {
				curF.Fuel = n
			}
		case "decreases":
			e := mustExpr(it.text)
			if curLoop != nil {
				curLoop.Decr = e
			} else if curF != nil {
				curF.Decr = e
			}
		case "modifies":
			if curF == nil {
				panic(fmt.Errorf("spec: stray modifies"))
			}
			curF.Modifies = append(curF.Modifies, exprList(it.text)...)
		case "reveal":
			if curL != nil {
				curL.Reveal = append(curL.Reveal, names(it.text)...)
			} else if curF != nil {
				curF.Reveal = append(curF.Reveal, names(it.text)...)
			}
		case "opaque":
			if curL != nil {
				curL.Opaque = append(curL.Opaque, names(it.text)...)
			} else if curF != nil {
				curF.Opaque = append(curF.Opaque, names(it.text)...)
			}
		case "uses":
			es := exprList(it.text)
			if curLoop != nil {
				curLoop.Uses = append(curLoop.Uses, es...)
			} else if curL != nil {
				curL.Uses = append(curL.Uses, es...)
			} else if curF != nil {
				curF.Uses = append(curF.Uses, es...)
			}
		case "panic_requires":
			if curF == nil {
				panic(fmt.Errorf("spec: stray panic_requires"))
			}
			curF.PanicRequires = append(curF.PanicRequires, Clause{E: mustExpr(it.text), Text: it.text})
		case "uses_post":
			if curF == nil {
				panic(fmt.Errorf("spec: stray uses_post"))
			}
			curF.UsesPost = append(curF.UsesPost, exprList(it.text)...)
		case "prop":
			if curL != nil {
				curL.Props = append(curL.Props, names(it.text)...)
			} else if curF != nil {
				curF.Props = append(curF.Props, names(it.text)...)
			}
		case "trusted":
			if curF == nil {
				panic(fmt.Errorf("spec: stray trusted"))
			}
			curF.Trusted = true
		case "inline":
			if curF == nil {
				panic(fmt.Errorf("spec: stray inline"))
			}
			curF.Inline = true
		case "cover":
			if curF != nil {
				curF.Cover = true
			}
		case "nopanic":
			if curF == nil {
				panic(fmt.Errorf("spec: stray nopanic"))
			}
			curF.NoPanic = true
		case "panics_when":
			if curF == nil {
				panic(fmt.Errorf("spec: stray panics_when"))
			}
			curF.Panics = mustExpr(it.text)
		case "induction":
			if curL == nil {
				panic(fmt.Errorf("spec: stray induction"))
			}
			f := strings.Fields(it.text)
			curL.Induction = f[0]
			curL.Generalize = len(f) > 1 && f[1] == "generalizing"
		case "expect":
			if curL == nil {
				panic(fmt.Errorf("spec: stray expect"))
			}
			curL.Expect = strings.TrimSpace(it.text)
		case "trigger":
			var pat []SExpr
			pat = exprList(it.text)
			if curL != nil {
				curL.Trigger = append(curL.Trigger, pat)
			} else if curS != nil {
				curS.Trigger = append(curS.Trigger, pat)
			}
		}
	}
	return sf, nil
}

func matchParen(s string, lp int) int {
	if lp < 0 {
		panic(fmt.Errorf("spec: expected '(' in %q", s))
	}
	d := 0
	for i := lp; i < len(s); i++ {
		switch s[i] {
		case '(':
			d++
		case ')':
			d--
			if d == 0 {
				return i
			}
		}
	}
	panic(fmt.Errorf("spec: unbalanced parentheses in %q", s))
}

func splitTop(s string, sep byte) []string {
	var out []string
	d := 0
	last := 0
	for i := 0; i < len(s); i++ {
		switch s[i] {
		case '(', '[', '{':
			d++
		case ')', ']', '}':
			d--
		default:
			if s[i] == sep && d == 0 {
				out = append(out, s[last:i])
				last = i + 1
			}
		}
	}
	out = append(out, s[last:])
	return out
}

func parseParams(s string) []SParam {
	var out []SParam
	for _, part := range splitTop(s, ',') {
		fs := strings.Fields(part)
		if len(fs) == 0 {
			continue
		}
		typ := "int"
		if len(fs) > 1 {
			typ = strings.Join(fs[1:], "")
		}
		out = append(out, SParam{fs[0], typ})
	}
	return out
}

// parseFuncHeader parses "(k Keeper) mint(ctx, params, level) (res, err)" or "name(a, b) (r)".
func parseFuncHeader(pkg, text string) *FuncContract {
	fc := &FuncContract{Pkg: pkg}
	text = strings.TrimSpace(text)
	if strings.HasPrefix(text, "(") {
		rp := matchParen(text, 0)
		fs := strings.Fields(text[1:rp])
		if len(fs) == 2 {
			fc.RecvName = fs[0]
			fc.Recv = strings.TrimPrefix(fs[1], "*")
		} else if len(fs) == 1 {
			fc.Recv = strings.TrimPrefix(fs[0], "*")
		} else {
			panic(fmt.Errorf("spec: bad receiver in %q", text))
		}
		text = strings.TrimSpace(text[rp+1:])
	}
	lp := strings.IndexByte(text, '(')
	rp := matchParen(text, lp)
	fc.Name = strings.TrimSpace(text[:lp])
	for _, prm := range strings.Split(text[lp+1:rp], ",") {
		if prm = strings.TrimSpace(prm); prm != "" {
			fc.Params = append(fc.Params, strings.Fields(prm)[0])
		}
	}
	rest := strings.TrimSpace(text[rp+1:])
	if strings.HasPrefix(rest, "(") {
		rp2 := matchParen(rest, 0)
		for _, prm := range strings.Split(rest[1:rp2], ",") {
			if prm = strings.TrimSpace(prm); prm != "" {
				fc.Results = append(fc.Results, strings.Fields(prm)[0])
			}
		}
	}
	return fc
}
