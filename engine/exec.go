package main

// Symbolic execution of go/ssa function bodies, path by path, cutting loops
// at their invariants and replacing calls by contracts / library models /
// the inlined real body.

import (
	"fmt"
	"go/constant"
	"go/token"
	"go/types"
	"sort"
	"strings"

	"golang.org/x/tools/go/ssa"
)

type Frame struct {
	fn       *ssa.Function
	regs     map[ssa.Value]*Val
	defers   []*ssa.Defer
	deferSt  []map[ssa.Value]*Val
	depth    int
	loops    map[*ssa.BasicBlock]*loopCtx
	ret      func(st *State, res []*Val)
	prefix   string // label prefix for inlined frames
	contract *FuncContract
	caller   *Frame
}

type loopCtx struct {
	decr0 *Term
	old   *State
}

func (f *Frame) clone() *Frame {
	n := *f
	n.regs = make(map[ssa.Value]*Val, len(f.regs))
	for k, v := range f.regs {
		n.regs[k] = v
	}
	n.loops = make(map[*ssa.BasicBlock]*loopCtx, len(f.loops))
	for k, v := range f.loops {
		n.loops[k] = v
	}
	n.defers = append([]*ssa.Defer(nil), f.defers...)
	n.deferSt = append([]map[ssa.Value]*Val(nil), f.deferSt...)
	return &n
}

type Exec struct {
	retFr       *Frame           // frame and block of the top-level return being processed (for `reach` clauses)
	retBlk      *ssa.BasicBlock
	frameAllows []frameAllow // heap part of the verified function's modifies clause, evaluated at entry
	noFrame     bool
	P        *Program
	top      *ssa.Function
	topKey   string
	fc       *FuncContract
	obs      []*Obligation
	abstr    map[string]bool // unmodelled / abstracted constructs met
	libUsed  map[string]bool
	inlined  map[string]bool
	trusted  map[string]bool
	usedCtr  map[string]bool // contracts used at call sites
	paths    int
	maxPaths int
	siteIdx  map[*ssa.Function]map[ssa.Instruction]string
	axioms   []*Term // spec function definitions etc. in scope
	opaque   map[string]bool
	watch    []Watch
	pre      *State
	noPanic  bool // generate no-panic obligations (contract says `nopanic`)
	entryEnv map[string]*Val
	aborted  string
	overflow bool // generate no-overflow obligations for machine integers
	// set while a package initializer is executed to learn the initial values of its package-level variables
	captureGlobals map[*ssa.Global]*Val
	specDone   map[string]bool
	revealed   map[string]bool
	lemmasUsed map[string]bool
	topDecr0   *Term
	specDefs   map[string]*SpecDef
	fuel       int
	kvHandles  map[string]kvHandle
	authT      *authTypes
	noC09      bool
	panicMode  bool
	panicProps []string
}

func NewExec(p *Program) *Exec {
	return &Exec{P: p, abstr: map[string]bool{}, libUsed: map[string]bool{}, inlined: map[string]bool{}, trusted: map[string]bool{},
		usedCtr: map[string]bool{}, maxPaths: 4000, siteIdx: map[*ssa.Function]map[ssa.Instruction]string{}, opaque: map[string]bool{"chopRound": true},
		noPanic: true, overflow: true}
}

func (x *Exec) note(s string) { x.abstr[s] = true }

// siteLabel gives a position-independent label for an instruction: <what>#<ordinal in function>.
func (x *Exec) siteLabel(fr *Frame, in ssa.Instruction, what string) string {
	m := x.siteIdx[fr.fn]
	if m == nil {
		m = map[ssa.Instruction]string{}
		x.siteIdx[fr.fn] = m
	}
	key := what
	if l, ok := m[in]; ok && strings.HasPrefix(l, key+"#") {
		return fr.prefix + l
	}
	// ordinal = number of instructions with the same `what` label registered before, in block order
	cnt := 0
	for _, l := range m {
		if strings.HasPrefix(l, key+"#") {
			cnt++
		}
	}
	_ = cnt
	// deterministic ordinal: position of `in` among instructions of the same Go type and callee name
	ord := 0
	found := false
	for _, b := range fr.fn.Blocks {
		for _, i2 := range b.Instrs {
			if instrWhat(i2) == instrWhat(in) {
				ord++
				if i2 == in {
					found = true
					break
				}
			}
		}
		if found {
			break
		}
	}
	l := fmt.Sprintf("%s#%d", key, ord)
	m[in] = l
	return fr.prefix + l
}

func instrWhat(in ssa.Instruction) string {
	switch v := in.(type) {
	case ssa.CallInstruction:
		c := v.Common()
		if c.IsInvoke() {
			return "call:" + c.Method.Name()
		}
		if f := c.StaticCallee(); f != nil {
			return "call:" + f.Name()
		}
		if b, ok := c.Value.(*ssa.Builtin); ok {
			return "call:" + b.Name()
		}
		return "call:dyn"
	case *ssa.BinOp:
		return "binop:" + v.Op.String()
	case *ssa.UnOp:
		return "unop:" + v.Op.String()
	}
	return fmt.Sprintf("%T", in)
}

func (x *Exec) emit(kind, label string, st *State, goal *Term, note string) *Obligation {
	o := &Obligation{Name: x.topKey + "/" + kind + "@" + label, Kind: kind, Func: x.topKey, Hyps: append([]*Term(nil), st.PC...), Goal: goal,
		Axioms: x.axioms, Opaque: x.opaque, Watch: x.watch, Note: note, SpecDefs: x.specDefs, Fuel: x.fuel}
	x.obs = append(x.obs, o)
	return o
}

// check emits a no-panic obligation "cond never holds" and continues assuming it does not.
func (x *Exec) mustNot(fr *Frame, st *State, in ssa.Instruction, cond *Term, what string) {
	if cond.IsFalse() {
		return
	}
	if x.noPanic || strings.HasPrefix(what, "overflow") {
		lbl := what
		if in != nil {
			lbl = x.siteLabel(fr, in, instrWhat(in)) + ":" + what
		}
		kind := "no-panic"
		if strings.HasPrefix(what, "overflow") {
			kind = "no-overflow"
		}
		x.emit(kind, lbl, st, Not(cond), posOf(fr, in))
	}
	st.Assume(Not(cond))
}

func posOf(fr *Frame, in ssa.Instruction) string {
	if in == nil || fr == nil {
		return ""
	}
	p := in.Pos()
	if p == token.NoPos {
		return fr.fn.Name()
	}
	pos := fr.fn.Prog.Fset.Position(p)
	return fmt.Sprintf("%s:%d", pos.Filename, pos.Line)
}

// ---------- values of SSA operands ----------

func (x *Exec) get(fr *Frame, st *State, v ssa.Value) *Val {
	switch c := v.(type) {
	case *ssa.Const:
		return x.constVal(c)
	case *ssa.Global:
		return &Val{K: VPtr, Typ: c.Type(), Ptr: &PtrInfo{Base: PGlobal, Global: c, Root: c.Type().(*types.Pointer).Elem()}}
	case *ssa.Function:
		return &Val{K: VFunc, Typ: c.Type(), Fn: c}
	case *ssa.Builtin:
		return &Val{K: VFunc, Typ: c.Type(), Lib: "builtin:" + c.Name()}
	}
	if r, ok := fr.regs[v]; ok {
		return r
	}
	panic(fmt.Sprintf("no value for %s (%T) in %s", v.Name(), v, fr.fn.Name()))
}

func (x *Exec) constVal(c *ssa.Const) *Val {
	t := c.Type()
	k := classify(t)
	if c.Value == nil { // nil or zero value
		switch k {
		case VPtr:
			return &Val{K: VPtr, Typ: t, T: Num(0), Ptr: &PtrInfo{Base: PObj, Root: types.Unalias(t).Underlying().(*types.Pointer).Elem()}}
		case VOpaque, VFunc:
			return opaqueVal(t)
		case VStr:
			if _, isSlice := types.Unalias(t).Underlying().(*types.Slice); isSlice {
				return strVal(bytesNil, t) // nil []byte is distinct from an empty one
			}
		}
		return zeroVal(t)
	}
	switch k {
	case VInt:
		if c.Value.Kind() == constant.Int {
			s := c.Value.ExactString()
			return intVal(NumStr(s), t)
		}
		if i, ok := constant.Int64Val(constant.ToInt(c.Value)); ok {
			return intVal(Num(i), t)
		}
	case VBool:
		return boolVal(BoolT(constant.BoolVal(c.Value)))
	case VStr:
		return strVal(strLit(constant.StringVal(c.Value)), t)
	}
	return opaqueVal(t)
}

func ptrElem(t types.Type) types.Type {
	return types.Unalias(t).Underlying().(*types.Pointer).Elem()
}

// ---------- pointers ----------

func (x *Exec) nilCheck(fr *Frame, st *State, in ssa.Instruction, p *Val) {
	if p.K != VPtr {
		return
	}
	if p.Ptr.Base == PObj {
		x.mustNot(fr, st, in, Eq(p.T, Num(0)), "nil-deref")
	}
}

func (x *Exec) load(fr *Frame, st *State, in ssa.Instruction, p *Val) *Val {
	if p.K != VPtr {
		x.note("load through unmodelled pointer in " + fr.fn.Name())
		return freshVal(ptrElem(p.Typ), "unk", true)
	}
	x.nilCheck(fr, st, in, p)
	v := x.loadNoCheck(st, p)
	if p.Ptr.Base != PCell {
		// values read from memory are well-formed for their type and hold allocated references
		for _, wf := range wellFormed(v) {
			st.Assume(wf)
		}
		x.assumeAllocated(st, v)
	}
	return v
}

func (x *Exec) loadNoCheck(st *State, p *Val) *Val {
	pi := p.Ptr
	prefix, t := pathPrefix(pi.Root, pi.Path)
	switch pi.Base {
	case PObj:
		return st.loadObj(pi.Root, p.T, prefix, t)
	case PCell:
		return subVal(st.Cells[pi.Cell], pi.Path)
	case PElem:
		return st.loadElem(pi.Root, pi.Arr, pi.Idx, prefix, t)
	case PGlobal:
		if x.captureGlobals != nil {
			if v, ok := x.captureGlobals[pi.Global]; ok {
				return subVal(v, pi.Path) // inside the package initializer: the value stored earlier
			}
		}
		g := x.globalVal(st, pi.Global)
		return subVal(g, pi.Path)
	}
	panic("load: bad pointer base")
}

func (x *Exec) store(fr *Frame, st *State, in ssa.Instruction, p *Val, v *Val) {
	if p.K != VPtr {
		x.note("store through unmodelled pointer in " + fr.fn.Name())
		return
	}
	x.nilCheck(fr, st, in, p)
	pi := p.Ptr
	prefix, _ := pathPrefix(pi.Root, pi.Path)
	var err error
	if pi.Base == PObj || pi.Base == PElem {
		v = x.snapshotInteriorPtrs(st, v)
	}
	switch pi.Base {
	case PObj:
		err = st.storeObj(pi.Root, p.T, prefix, v)
	case PCell:
		st.Cells[pi.Cell] = withSub(st.Cells[pi.Cell], pi.Path, v)
	case PElem:
		err = st.storeElem(pi.Root, pi.Arr, pi.Idx, prefix, v)
	case PGlobal:
		if x.captureGlobals != nil && len(pi.Path) == 0 {
			x.captureGlobals[pi.Global] = v
		} else {
			x.note("write to package-level variable " + pi.Global.String())
		}
	}
	if err != nil {
		x.note(err.Error() + " in " + fr.fn.Name())
	}
}

// snapshotInteriorPtrs: a pointer into the middle of an object (&x.f) or to an element cannot be stored in
// the heap model directly. It is replaced by a pointer to a fresh object holding a copy of the pointee's
// current value. Sound as long as neither the original field nor the copy is written afterwards (true of
// the read-only configuration objects this occurs for); recorded as an abstraction.
func (x *Exec) snapshotInteriorPtrs(st *State, v *Val) *Val {
	switch v.K {
	case VPtr:
		if v.Ptr == nil || (v.Ptr.Base == PObj && len(v.Ptr.Path) == 0) || v.Ptr.Base == PGlobal {
			return v
		}
		if v.Ptr.Base == PCell {
			return v
		}
		_, t := pathPrefix(v.Ptr.Root, v.Ptr.Path)
		cur := x.loadNoCheck(st, v)
		cur = x.snapshotInteriorPtrs(st, cur)
		ref := st.alloc()
		if err := st.storeObj(t, ref, "", cur); err != nil {
			return v
		}
		x.note("interior pointer stored in the heap: modelled as a pointer to a snapshot copy of " + typeString(t))
		return &Val{K: VPtr, Typ: v.Typ, T: ref, Ptr: &PtrInfo{Base: PObj, Root: t}}
	case VStruct, VTuple:
		changed := false
		fs := make([]*Val, len(v.Fields))
		for i, f := range v.Fields {
			fs[i] = x.snapshotInteriorPtrs(st, f)
			if fs[i] != f {
				changed = true
			}
		}
		if !changed {
			return v
		}
		c := *v
		c.Fields = fs
		return &c
	}
	return v
}

// globalVal: package-level variables are modelled as immutable symbolic constants.
func (x *Exec) globalVal(st *State, g *ssa.Global) *Val {
	t := g.Type().(*types.Pointer).Elem()
	name := "glob:" + g.Pkg.Pkg.Path() + "." + g.Name()
	if classify(t) == VFunc {
		return &Val{K: VFunc, Typ: t, Lib: "globfn:" + g.Pkg.Pkg.Path() + "." + g.Name()}
	}
	v := freshVal(t, name, false)
	if v.K == VPtr && strings.HasSuffix(typeString(t), "cosmossdk.io/errors.Error") {
		// a registered error: its own root, distinct from every other registered error
		errPtrTag = typeID(t)
		errGlobals[v.T.Op] = true
	}
	if v.K == VStr {
		if n, ok := x.P.globalBytesLen(g); ok {
			st.Assume(Eq(StrLen(v.T), Num(int64(n))))
			st.Assume(Neq(v.T, bytesNil))
		}
	}
	// registered errors and other pointer / interface globals of dependencies are non-nil
	if !strings.HasPrefix(g.Pkg.Pkg.Path(), repoModule) || true {
		switch v.K {
		case VPtr:
			st.Assume(Gt(v.T, Num(0)))
			st.Assume(Lt(v.T, Const("ref:base", SInt)))
		case VIface:
			st.Assume(Gt(v.Tag, Num(0)))
		}
	}
	for _, wf := range wellFormed(v) {
		st.Assume(wf)
	}
	// numbers and strings set once by the package initializer from constants (package-level variables of the repository are
	// never written afterwards: effect obligation global.write, C11)
	if strings.HasPrefix(g.Pkg.Pkg.Path(), repoModule) && (v.K == VBig || v.K == VInt) {
		if iv := x.P.globalInit(g); iv != nil && iv.K == v.K {
			la, lb := v.leaves(), iv.leaves()
			for i := range la {
				if la[i] != nil && lb[i] != nil {
					st.Assume(Eq(la[i], lb[i]))
				}
			}
		}
	}
	return v
}

var globalInitCache = map[*ssa.Package]map[*ssa.Global]*Val{}

// globalInit runs the package initializer symbolically (once per package) and returns the value it stores into g when that
// value is a closed constant term; nil otherwise.
func (p *Program) globalInit(g *ssa.Global) *Val {
	m, done := globalInitCache[g.Pkg]
	if !done {
		m = map[*ssa.Global]*Val{}
		globalInitCache[g.Pkg] = m
		initFn := g.Pkg.Func("init")
		if initFn != nil && len(initFn.Blocks) > 0 {
			func() {
				defer func() { _ = recover() }()
				x := NewExec(p)
				x.noPanic, x.overflow = false, false
				x.maxPaths = 4
				x.captureGlobals = map[*ssa.Global]*Val{}
				st := x.initState()
				x.runFunction(initFn, nil, st, 0, "", nil, func(*State, []*Val) {})
				for gl, v := range x.captureGlobals {
					closed := true
					for _, l := range v.leaves() {
						if l == nil || !(l.K == TNum || l.K == TBoolLit) {
							closed = false
						}
					}
					if closed {
						m[gl] = v
					}
				}
			}()
		}
	}
	return m[g]
}

// ---------- running ----------

type abortPath struct{ why string }

func (x *Exec) runFunction(fn *ssa.Function, args []*Val, st *State, depth int, prefix string, caller *Frame, ret func(st *State, res []*Val)) {
	if len(fn.Blocks) == 0 {
		x.note("call of function without body: " + fn.String())
		ret(st, x.freshResults(fn.Signature))
		return
	}
	fr := &Frame{fn: fn, regs: map[ssa.Value]*Val{}, depth: depth, loops: map[*ssa.BasicBlock]*loopCtx{}, ret: ret, prefix: prefix, caller: caller}
	for i, p := range fn.Params {
		fr.regs[p] = args[i]
	}
	if key := contractKeyOf(fn); key != "" {
		fr.contract = x.P.Specs.Contracts[key]
	}
	x.runBlock(fr, st, fn.Blocks[0], nil)
}

func (x *Exec) freshResults(sig *types.Signature) []*Val {
	var out []*Val
	for i := 0; i < sig.Results().Len(); i++ {
		out = append(out, freshVal(sig.Results().At(i).Type(), "res", true))
	}
	return out
}

func (x *Exec) runBlock(fr *Frame, st *State, b *ssa.BasicBlock, prev *ssa.BasicBlock) {
	if x.aborted != "" {
		return
	}
	// phis
	nphi := 0
	var phiVals []*Val
	for _, in := range b.Instrs {
		phi, ok := in.(*ssa.Phi)
		if !ok {
			break
		}
		nphi++
		idx := -1
		for i, p := range b.Preds {
			if p == prev {
				idx = i
				break
			}
		}
		if idx < 0 {
			panic("phi: predecessor not found")
		}
		phiVals = append(phiVals, x.get(fr, st, phi.Edges[idx]))
	}
	for i := 0; i < nphi; i++ {
		fr.regs[b.Instrs[i].(*ssa.Phi)] = phiVals[i]
	}
	if isLoopHeader(b) {
		backEdge := prev != nil && b.Dominates(prev)
		if !x.loopCut(fr, st, b, backEdge) {
			return
		}
	}
	x.step(fr, st, b, nphi)
}

func isLoopHeader(b *ssa.BasicBlock) bool {
	for _, p := range b.Preds {
		if b.Dominates(p) {
			return true
		}
	}
	return false
}

func (x *Exec) step(fr *Frame, st *State, b *ssa.BasicBlock, i int) {
	for ; i < len(b.Instrs); i++ {
		if x.aborted != "" {
			return
		}
		in := b.Instrs[i]
		switch v := in.(type) {
		case *ssa.DebugRef:
			// names only
		case *ssa.If:
			c := x.get(fr, st, v.Cond)
			if c.K != VBool {
				c = boolVal(Const(freshName("cond"), SBool))
			}
			x.branch(fr, st, b, c.T)
			return
		case *ssa.Jump:
			x.runBlock(fr, st, b.Succs[0], b)
			return
		case *ssa.Return:
			var res []*Val
			for _, r := range v.Results {
				res = append(res, x.get(fr, st, r))
			}
			x.paths++
			if x.paths > x.maxPaths {
				x.aborted = fmt.Sprintf("more than %d paths", x.maxPaths)
				return
			}
			if fr.depth == 0 {
				x.retFr, x.retBlk = fr, b
			}
			fr.ret(st, res)
			return
		case *ssa.Panic:
			// explicit panic: reaching it is an obligation (path must be infeasible)
			x.mustNot(fr, st, in, TrueT, "explicit-panic")
			return
		case *ssa.RunDefers:
			k := i
			x.runDefers(fr, st, len(fr.defers)-1, func(st2 *State) { x.step(fr, st2, b, k+1) })
			return
		case *ssa.Defer:
			fr.defers = append(fr.defers, v)
			// argument values are evaluated now
			snap := map[ssa.Value]*Val{}
			for _, a := range v.Call.Args {
				snap[a] = x.get(fr, st, a)
			}
			if !v.Call.IsInvoke() {
				snap[v.Call.Value] = x.get(fr, st, v.Call.Value)
			} else {
				snap[v.Call.Value] = x.get(fr, st, v.Call.Value)
			}
			fr.deferSt = append(fr.deferSt, snap)
		case *ssa.Go:
			x.note("go statement in " + fr.fn.Name())
		case *ssa.Call:
			k := i
			frozen := fr
			first := true
			x.call(fr, st, v, &v.Call, func(st2 *State, res *Val) {
				f2 := frozen
				if !first {
					f2 = frozen.clone()
				} else {
					// the first continuation may reuse the frame only if no other
					// outcome follows; cloning is cheap enough to always do it
					f2 = frozen.clone()
				}
				first = false
				if res != nil {
					f2.regs[v] = res
				}
				x.step(f2, st2, b, k+1)
			})
			return
		default:
			if !x.simple(fr, st, in) {
				return
			}
		}
	}
}

func (x *Exec) branch(fr *Frame, st *State, b *ssa.BasicBlock, c *Term) {
	if c.IsTrue() {
		x.runBlock(fr, st, b.Succs[0], b)
		return
	}
	if c.IsFalse() {
		x.runBlock(fr, st, b.Succs[1], b)
		return
	}
	st2 := st.Clone()
	fr2 := fr.clone()
	st.Assume(c)
	st.Trace = append(st.Trace, fmt.Sprintf("b%d:T", b.Index))
	x.runBlock(fr, st, b.Succs[0], b)
	st2.Assume(Not(c))
	st2.Trace = append(st2.Trace, fmt.Sprintf("b%d:F", b.Index))
	x.runBlock(fr2, st2, b.Succs[1], b)
}

func (x *Exec) runDefers(fr *Frame, st *State, i int, k func(st *State)) {
	// work on copies: a deferred call may return along several paths, each continuing with the remaining defers
	x.runDefersFrom(fr, st, append([]*ssa.Defer(nil), fr.defers...), append([]map[ssa.Value]*Val(nil), fr.deferSt...), i, k)
}

func (x *Exec) runDefersFrom(fr *Frame, st *State, defers []*ssa.Defer, snaps []map[ssa.Value]*Val, i int, k func(st *State)) {
	if i < 0 {
		k(st)
		return
	}
	d := defers[i]
	// evaluate with the argument snapshot taken at the defer statement
	f2 := fr.clone()
	for v, val := range snaps[i] {
		f2.regs[v] = val
	}
	x.call(f2, st, d, &d.Call, func(st2 *State, _ *Val) {
		x.runDefersFrom(fr, st2, defers, snaps, i-1, k)
	})
}

// simple executes a non-control instruction; returns false if the path ended.
func (x *Exec) simple(fr *Frame, st *State, in ssa.Instruction) bool {
	switch v := in.(type) {
	case *ssa.Alloc:
		t := ptrElem(v.Type())
		if at, isArr := types.Unalias(t).Underlying().(*types.Array); isArr {
			// arrays are modelled like slice backing arrays
			ref := st.alloc()
			_ = at
			fr.regs[v] = &Val{K: VPtr, Typ: v.Type(), T: ref, Ptr: &PtrInfo{Base: PObj, Root: t}}
			break
		}
		if v.Heap {
			ref := st.alloc()
			if err := st.storeObj(t, ref, "", zeroOrOpaque(t)); err != nil {
				x.note(err.Error())
			}
			fr.regs[v] = &Val{K: VPtr, Typ: v.Type(), T: ref, Ptr: &PtrInfo{Base: PObj, Root: t}}
		} else {
			id := len(st.CellTypes) + 1
			st.CellTypes[id] = t
			st.Cells[id] = zeroOrOpaque(t)
			fr.regs[v] = &Val{K: VPtr, Typ: v.Type(), Ptr: &PtrInfo{Base: PCell, Cell: id, Root: t}}
		}
	case *ssa.FieldAddr:
		p := x.get(fr, st, v.X)
		if p.K != VPtr {
			x.note("FieldAddr on unmodelled pointer in " + fr.fn.Name())
			fr.regs[v] = opaqueVal(v.Type())
			break
		}
		if len(p.Ptr.Path) == 0 {
			x.nilCheck(fr, st, in, p)
		}
		np := *p
		pi := *p.Ptr
		pi.Path = append(append([]int(nil), p.Ptr.Path...), v.Field)
		np.Ptr = &pi
		np.Typ = v.Type()
		fr.regs[v] = &np
	case *ssa.Field:
		s := x.get(fr, st, v.X)
		if s.K != VStruct {
			fr.regs[v] = freshVal(v.Type(), "fld", true)
			x.note("Field on unmodelled struct " + typeString(v.X.Type()))
			break
		}
		fr.regs[v] = s.Fields[v.Field]
	case *ssa.UnOp:
		x.unop(fr, st, v)
	case *ssa.BinOp:
		x.binop(fr, st, v)
	case *ssa.Store:
		{
			p := x.get(fr, st, v.Addr)
			if p.K == VPtr && p.Ptr != nil {
				prefix, _ := pathPrefix(p.Ptr.Root, p.Ptr.Path)
				switch p.Ptr.Base {
				case PObj:
					x.checkHeapWrite(fr, st, in, heapTypeKey(p.Ptr.Root)+"#"+prefix, p.T, "store")
				case PElem:
					x.checkHeapWrite(fr, st, in, "[]"+heapTypeKey(p.Ptr.Root)+"#"+prefix, p.Ptr.Arr, "store")
				}
			}
			x.store(fr, st, in, p, x.get(fr, st, v.Val))
		}
	case *ssa.Extract:
		t := x.get(fr, st, v.Tuple)
		if t.K == VTuple {
			fr.regs[v] = t.Fields[v.Index]
		} else {
			fr.regs[v] = freshVal(v.Type(), "ext", true)
		}
	case *ssa.ChangeType:
		a := x.get(fr, st, v.X)
		fr.regs[v] = retype(a, v.Type())
	case *ssa.Convert:
		x.convert(fr, st, v)
	case *ssa.ChangeInterface:
		a := x.get(fr, st, v.X)
		c := *a
		c.Typ = v.Type()
		fr.regs[v] = &c
	case *ssa.MakeInterface:
		fr.regs[v] = x.makeInterface(st, x.get(fr, st, v.X), v.X.Type(), v.Type())
	case *ssa.TypeAssert:
		return x.typeAssert(fr, st, v)
	case *ssa.MakeClosure:
		fn := v.Fn.(*ssa.Function)
		var free []*Val
		for _, b := range v.Bindings {
			free = append(free, x.get(fr, st, b))
		}
		fr.regs[v] = &Val{K: VFunc, Typ: v.Type(), Fn: fn, Free: free}
	case *ssa.IndexAddr:
		x.indexAddr(fr, st, v)
	case *ssa.Index:
		x.note("Index on array/string value in " + fr.fn.Name())
		fr.regs[v] = freshVal(v.Type(), "idx", true)
	case *ssa.Slice:
		x.sliceOp(fr, st, v)
	case *ssa.MakeSlice:
		ln := x.get(fr, st, v.Len)
		ref := st.alloc()
		fr.regs[v] = &Val{K: VSlice, Typ: v.Type(), T: ref, Off: Num(0), Len: ln.T}
		if classify(v.Type()) != VSlice {
			fr.regs[v] = freshVal(v.Type(), "mk", true)
		}
		x.mustNot(fr, st, in, Lt(ln.T, Num(0)), "makeslice-negative-len")
	case *ssa.MakeMap:
		ref := st.alloc()
		mv := &Val{K: VMap, Typ: v.Type(), T: ref}
		x.mapInitEmpty(st, mv)
		fr.regs[v] = mv
	case *ssa.MapUpdate:
		x.mapUpdate(fr, st, v)
	case *ssa.Lookup:
		x.lookup(fr, st, v)
	case *ssa.Range:
		if _, _, ok := x.mapArrays(st, v.X.Type()); ok {
			// an iterator over a map with scalar keys: a ghost cell holds the set of keys it has yielded so far
			ks, _ := x.mapKeySort(v.X.Type())
			id := len(st.CellTypes) + 1
			st.CellTypes[id] = nil
			st.Cells[id] = &Val{K: VArr, T: &Term{K: TApp, Op: "(as const " + SArr(ks, SBool) + ")", Args: []*Term{FalseT}, Sort: SArr(ks, SBool)}}
			fr.regs[v] = &Val{K: VPtr, Typ: v.Type(), Ptr: &PtrInfo{Base: PCell, Cell: id}}
			break
		}
		x.note("range over map/string in " + fr.fn.Name())
		fr.regs[v] = opaqueVal(v.Type())
	case *ssa.Next:
		if rg, ok := v.Iter.(*ssa.Range); ok && !v.IsString {
			if it, ok := fr.regs[rg]; ok && it.K == VPtr && it.Ptr != nil && it.Ptr.Base == PCell {
				if cur, ok := st.Cells[it.Ptr.Cell]; ok && cur.K == VArr {
					x.mapNext(fr, st, v, rg, it.Ptr.Cell, cur.T)
					break
				}
			}
		}
		x.note("range over map/string in " + fr.fn.Name())
		fr.regs[v] = freshVal(v.Type(), "next", true)
	case *ssa.Phi:
		panic("phi in the middle of a block")
	default:
		x.note(fmt.Sprintf("unmodelled instruction %T in %s", in, fr.fn.Name()))
		if val, ok := in.(ssa.Value); ok {
			fr.regs[val] = freshVal(val.Type(), "unk", true)
		}
	}
	return true
}

func zeroOrOpaque(t types.Type) *Val { return zeroVal(t) }

func retype(a *Val, t types.Type) *Val {
	c := *a
	c.Typ = t
	c.IsDec = a.IsDec
	if classify(t) != a.K && !(a.K == VOpaque) {
		// e.g. named slice types <-> slices: same representation class expected
		if classify(t) == VOpaque {
			return opaqueVal(t)
		}
	}
	return &c
}

func (x *Exec) unop(fr *Frame, st *State, v *ssa.UnOp) {
	a := x.get(fr, st, v.X)
	switch v.Op {
	case token.MUL:
		if v.CommaOk {
			x.note("channel receive")
			fr.regs[v] = freshVal(v.Type(), "recv", true)
			return
		}
		fr.regs[v] = x.load(fr, st, v, a)
	case token.NOT:
		fr.regs[v] = boolVal(Not(a.T))
	case token.SUB:
		if a.K != VInt {
			fr.regs[v] = freshVal(v.Type(), "neg", true)
			x.note("negation of non-integer")
			return
		}
		r := Neg(a.T)
		x.rangeCheck(fr, st, v, r, v.Type(), "overflow-neg")
		fr.regs[v] = intVal(r, v.Type())
	default:
		x.note("unmodelled unary operator " + v.Op.String())
		fr.regs[v] = freshVal(v.Type(), "un", true)
	}
}

func (x *Exec) rangeCheck(fr *Frame, st *State, in ssa.Instruction, r *Term, t types.Type, what string) {
	lo, hi := intRange(t)
	if lo == nil || !x.overflow {
		return
	}
	x.mustNot(fr, st, in, Or(Lt(r, lo), Gt(r, hi)), what)
}

func (x *Exec) binop(fr *Frame, st *State, v *ssa.BinOp) {
	a, b := x.get(fr, st, v.X), x.get(fr, st, v.Y)
	res := func(t *Term) { fr.regs[v] = boolVal(t) }
	switch v.Op {
	case token.EQL, token.NEQ:
		var eq *Term
		switch {
		case a.K == VIface || b.K == VIface:
			eq = x.ifaceEq(st, a, b)
		case a.K == VPtr && b.K == VPtr:
			eq = ptrEq(a, b)
		case a.K == VSlice || b.K == VSlice: // comparison with nil
			s := a
			if a.K != VSlice {
				s = b
			}
			eq = Eq(s.T, Num(0))
		case a.K == VMap || b.K == VMap:
			m := a
			if a.K != VMap {
				m = b
			}
			eq = Eq(m.T, Num(0))
		case a.K == VOpaque || b.K == VOpaque || a.K == VFunc || b.K == VFunc:
			x.note("comparison of unmodelled values in " + fr.fn.Name())
			eq = Const(freshName("cmp"), SBool)
		case containsBig(a) || containsBig(b):
			// Go compares the *big.Int pointers inside math.Int / sdk.Dec, not the numbers: equal pointers imply equal
			// values and two nil pointers are equal; anything else depends on aliasing the model does not track
			x.note("== / != on a value holding math.Int or sdk.Dec compares pointers: modelled as unknown unless both nil or values differ")
			e := Const(freshName("bigptreq"), SBool)
			st.Assume(Implies(e, valEq(a, b)))
			if a.K == VBig && b.K == VBig {
				st.Assume(Implies(And(a.Nil, b.Nil), e))
			}
			eq = e
		default:
			eq = valEq(a, b)
		}
		if v.Op == token.NEQ {
			eq = Not(eq)
		}
		res(eq)
		return
	}
	if a.K == VStr && b.K == VStr {
		switch v.Op {
		case token.ADD:
			fr.regs[v] = strVal(StrCat(a.T, b.T), v.Type())
		default:
			x.note("string ordering comparison")
			res(Const(freshName("scmp"), SBool))
		}
		return
	}
	if a.K == VBool && b.K == VBool {
		switch v.Op {
		case token.AND, token.LAND:
			res(And(a.T, b.T))
		case token.OR, token.LOR:
			res(Or(a.T, b.T))
		default:
			res(Const(freshName("bop"), SBool))
		}
		return
	}
	if a.K != VInt || b.K != VInt {
		x.note(fmt.Sprintf("binary operator %s on unmodelled operands (%s) in %s", v.Op, typeString(v.X.Type()), fr.fn.Name()))
		fr.regs[v] = freshVal(v.Type(), "bin", true)
		return
	}
	switch v.Op {
	case token.LSS:
		res(Lt(a.T, b.T))
	case token.LEQ:
		res(Le(a.T, b.T))
	case token.GTR:
		res(Gt(a.T, b.T))
	case token.GEQ:
		res(Ge(a.T, b.T))
	case token.ADD, token.SUB, token.MUL:
		var r *Term
		switch v.Op {
		case token.ADD:
			r = Add(a.T, b.T)
		case token.SUB:
			r = Sub(a.T, b.T)
		default:
			r = Mul(a.T, b.T)
		}
		r = x.define(st, r, "a")
		x.rangeCheck(fr, st, v, r, v.Type(), "overflow")
		fr.regs[v] = intVal(r, v.Type())
	case token.QUO, token.REM:
		x.mustNot(fr, st, v, Eq(b.T, Num(0)), "div-by-zero")
		if v.Op == token.QUO {
			r := x.define(st, TQuo(a.T, b.T), "q")
			x.rangeCheck(fr, st, v, r, v.Type(), "overflow-div")
			fr.regs[v] = intVal(r, v.Type())
		} else {
			fr.regs[v] = intVal(TRem(a.T, b.T), v.Type())
		}
	default:
		x.note("unmodelled integer operator " + v.Op.String() + " in " + fr.fn.Name())
		r := freshVal(v.Type(), "bits", true)
		for _, wf := range wellFormed(r) {
			st.Assume(wf)
		}
		fr.regs[v] = r
	}
}

func ptrEq(a, b *Val) *Term {
	pa, pb := a.Ptr, b.Ptr
	if pa.Base == PObj && pb.Base == PObj && len(pa.Path) == 0 && len(pb.Path) == 0 {
		return Eq(a.T, b.T)
	}
	if pa.Base == PCell && pb.Base == PCell {
		return BoolT(pa.Cell == pb.Cell && fmt.Sprint(pa.Path) == fmt.Sprint(pb.Path))
	}
	// a cell / interior pointer is never nil and never equal to a whole object
	if pa.Base == PObj && len(pa.Path) == 0 && a.T != nil && a.T.K == TNum {
		return FalseT
	}
	if pb.Base == PObj && len(pb.Path) == 0 && b.T != nil && b.T.K == TNum {
		return FalseT
	}
	return Const(freshName("peq"), SBool)
}

func (x *Exec) ifaceEq(st *State, a, b *Val) *Term {
	if a.K == VIface && b.K == VIface {
		// nil comparison is the common case
		if b.Tag.K == TNum && b.Tag.Num.Sign() == 0 {
			return Eq(a.Tag, Num(0))
		}
		if a.Tag.K == TNum && a.Tag.Num.Sign() == 0 {
			return Eq(b.Tag, Num(0))
		}
		return And(Eq(a.Tag, b.Tag), Eq(a.T, b.T))
	}
	return Const(freshName("ieq"), SBool)
}

func (x *Exec) convert(fr *Frame, st *State, v *ssa.Convert) {
	a := x.get(fr, st, v.X)
	from, to := classify(v.X.Type()), classify(v.Type())
	switch {
	case from == VInt && to == VInt:
		x.rangeCheck(fr, st, v, a.T, v.Type(), "overflow-convert")
		fr.regs[v] = intVal(a.T, v.Type())
	case from == VStr && to == VStr:
		_, toBytes := types.Unalias(v.Type()).Underlying().(*types.Slice)
		_, fromBytes := types.Unalias(v.X.Type()).Underlying().(*types.Slice)
		r := a.T
		if toBytes && !fromBytes {
			// []byte(s) is never the nil slice
			st.Assume(Neq(r, bytesNil))
		} else if !toBytes && fromBytes {
			// string(nil []byte) is ""
			r = Ite(Eq(a.T, bytesNil), emptyStr, a.T)
		}
		fr.regs[v] = strVal(r, v.Type())
	default:
		x.note(fmt.Sprintf("unmodelled conversion %s -> %s", typeString(v.X.Type()), typeString(v.Type())))
		r := freshVal(v.Type(), "conv", true)
		for _, wf := range wellFormed(r) {
			st.Assume(wf)
		}
		fr.regs[v] = r
	}
}

// ---------- interfaces ----------

func (x *Exec) makeInterface(st *State, a *Val, from types.Type, to types.Type) *Val {
	id := typeID(from)
	r := &Val{K: VIface, Typ: to, Tag: Num(int64(id))}
	switch a.K {
	case VPtr:
		if a.Ptr.Base == PObj && len(a.Ptr.Path) == 0 {
			r.T = a.T
			return r
		}
	case VInt:
		r.T = a.T
		return r
	}
	// box: payload is a reference to a heap copy of the value
	if len(flatten(from)) == 0 || a.K == VOpaque || a.K == VFunc {
		r.T = Const(freshName("box"), SInt)
		return r
	}
	ref := st.alloc()
	boxed := true
	for _, l := range a.leaves() {
		if l == nil {
			boxed = false
		}
	}
	if boxed {
		if err := st.storeObj(from, ref, "", a); err != nil {
			boxed = false
		}
	}
	r.T = ref
	return r
}

func (x *Exec) unbox(st *State, iv *Val, t types.Type) *Val {
	switch classify(t) {
	case VPtr:
		return &Val{K: VPtr, Typ: t, T: iv.T, Ptr: &PtrInfo{Base: PObj, Root: ptrElem(t)}}
	case VInt:
		return intVal(iv.T, t)
	case VOpaque, VFunc:
		return opaqueVal(t)
	}
	v := st.loadObj(t, iv.T, "", t)
	// the boxed value of an interface is a value of its dynamic type: lengths are non-negative, machine integers in range
	for _, wf := range wellFormed(v) {
		st.Assume(wf)
	}
	return v
}

// implementers of an interface among the named types of the repo (closed world)
func (x *Exec) implementers(it *types.Interface) []types.Type {
	var out []types.Type
	for path, sp := range x.P.SSAPkgs {
		if !strings.HasPrefix(path, repoModule) {
			continue
		}
		for _, m := range sp.Members {
			tn, ok := m.(*ssa.Type)
			if !ok {
				continue
			}
			T := tn.Type()
			if types.IsInterface(T) {
				continue
			}
			if types.Implements(T, it) {
				out = append(out, T)
			} else if pt := types.NewPointer(T); types.Implements(pt, it) {
				out = append(out, pt)
			}
		}
	}
	sort.Slice(out, func(i, j int) bool { return typeString(out[i]) < typeString(out[j]) })
	return out
}

func (x *Exec) typeAssert(fr *Frame, st *State, v *ssa.TypeAssert) bool {
	a := x.get(fr, st, v.X)
	if a.K != VIface {
		x.note("type assertion on unmodelled interface value")
		fr.regs[v] = freshVal(v.Type(), "ta", true)
		return true
	}
	var ok *Term
	var val *Val
	if it, isI := types.Unalias(v.AssertedType).Underlying().(*types.Interface); isI {
		if it.NumMethods() == 0 {
			ok = Neq(a.Tag, Num(0))
		} else if namedInRepo(v.AssertedType) {
			var alts []*Term
			for _, T := range x.implementers(it) {
				alts = append(alts, Eq(a.Tag, Num(int64(typeID(T)))))
			}
			ok = Or(alts...)
		} else {
			x.note("type assertion to external interface " + typeString(v.AssertedType))
			ok = And(Neq(a.Tag, Num(0)), Const(freshName("implements"), SBool))
		}
		c := *a
		c.Typ = v.AssertedType
		val = &c
	} else {
		ok = Eq(a.Tag, Num(int64(typeID(v.AssertedType))))
		val = x.unbox(st, a, v.AssertedType)
	}
	if v.CommaOk {
		// on failure the value is the zero value
		z := zeroOrNilVal(v.AssertedType)
		var rv *Val
		if len(val.leaves()) == len(z.leaves()) && val.K != VOpaque && leavesOK(val) && leavesOK(z) {
			rv = iteVal(ok, val, z)
			if val.K == VPtr {
				rv.Ptr = val.Ptr
			}
		} else {
			rv = val
		}
		fr.regs[v] = &Val{K: VTuple, Typ: v.Type(), Fields: []*Val{rv, boolVal(ok)}}
		return true
	}
	x.mustNot(fr, st, v, Not(ok), "type-assertion")
	fr.regs[v] = val
	return true
}

func leavesOK(v *Val) bool {
	for _, l := range v.leaves() {
		if l == nil {
			return false
		}
	}
	return true
}

func zeroOrNilVal(t types.Type) *Val {
	if classify(t) == VPtr {
		return &Val{K: VPtr, Typ: t, T: Num(0), Ptr: &PtrInfo{Base: PObj, Root: ptrElem(t)}}
	}
	return zeroVal(t)
}

func namedInRepo(t types.Type) bool {
	n, ok := types.Unalias(t).(*types.Named)
	return ok && n.Obj().Pkg() != nil && strings.HasPrefix(n.Obj().Pkg().Path(), repoModule)
}

// ---------- slices ----------

func sliceElem(t types.Type) types.Type {
	switch u := types.Unalias(t).Underlying().(type) {
	case *types.Slice:
		return u.Elem()
	case *types.Pointer:
		if a, ok := u.Elem().Underlying().(*types.Array); ok {
			return a.Elem()
		}
	}
	return nil
}

func (x *Exec) indexAddr(fr *Frame, st *State, v *ssa.IndexAddr) {
	s := x.get(fr, st, v.X)
	i := x.get(fr, st, v.Index)
	if at := arrayOfPtr(v.X.Type()); at != nil && s.K == VPtr && s.Ptr.Base == PObj && len(s.Ptr.Path) == 0 && i.K == VInt {
		x.mustNot(fr, st, v, Or(Lt(i.T, Num(0)), Ge(i.T, Num(at.Len()))), "index-out-of-range")
		fr.regs[v] = &Val{K: VPtr, Typ: v.Type(), Ptr: &PtrInfo{Base: PElem, Arr: s.T, Idx: i.T, Root: at.Elem()}}
		return
	}
	if s.K == VCoins && i.K == VInt {
		// element i of a Coins value seen as a slice: a (read-only) coin object
		x.mustNot(fr, st, v, Or(Lt(i.T, Num(0)), Ge(i.T, CoinsLen(s.T))), "index-out-of-range")
		et := sliceElem(v.X.Type())
		if et != nil && classify(et) == VStruct {
			coin := zeroVal(et)
			den := DenomAt(s.T, i.T)
			coin.Fields[0] = strVal(den, coin.Fields[0].Typ)
			amt := Select(s.T, den)
			if s.IsDec || isDecType(v.X.Type()) {
				coin.Fields[1] = bigVal(FalseT, amt, coin.Fields[1].Typ)
			} else {
				coin.Fields[1] = bigVal(FalseT, amt, coin.Fields[1].Typ)
			}
			st.Assume(Neq(amt, Num(0)))
			ref := st.alloc()
			_ = st.storeObj(et, ref, "", coin)
			fr.regs[v] = &Val{K: VPtr, Typ: v.Type(), T: ref, Ptr: &PtrInfo{Base: PObj, Root: et}}
			x.note("sdk.Coins indexed as a slice: element i is (denomAt(c,i), c[denomAt(c,i)]), read-only")
			return
		}
	}
	if s.K != VSlice || i.K != VInt {
		x.note("IndexAddr on unmodelled value " + typeString(v.X.Type()) + " in " + fr.fn.Name())
		fr.regs[v] = opaqueVal(v.Type())
		return
	}
	x.mustNot(fr, st, v, Or(Lt(i.T, Num(0)), Ge(i.T, s.Len)), "index-out-of-range")
	fr.regs[v] = &Val{K: VPtr, Typ: v.Type(), Ptr: &PtrInfo{Base: PElem, Arr: s.T, Idx: ElemIdx(s.Off, i.T), Root: sliceElem(v.X.Type())}}
}

func (x *Exec) sliceOp(fr *Frame, st *State, v *ssa.Slice) {
	s := x.get(fr, st, v.X)
	if at := arrayOfPtr(v.X.Type()); at != nil && s.K == VPtr && s.Ptr.Base == PObj && len(s.Ptr.Path) == 0 && classify(v.Type()) == VSlice {
		s = &Val{K: VSlice, Typ: v.Type(), T: s.T, Off: Num(0), Len: Num(at.Len())}
	}
	if s.K != VSlice {
		x.note("slice expression on " + typeString(v.X.Type()) + " in " + fr.fn.Name())
		r := freshVal(v.Type(), "slc", true)
		for _, wf := range wellFormed(r) {
			st.Assume(wf)
		}
		fr.regs[v] = r
		return
	}
	lo, hi := Num(0), s.Len
	if v.Low != nil {
		lo = x.get(fr, st, v.Low).T
	}
	if v.High != nil {
		hi = x.get(fr, st, v.High).T
	}
	// bound by len instead of cap: stricter than Go (cap is not modelled)
	x.mustNot(fr, st, v, Or(Lt(lo, Num(0)), Gt(lo, hi), Gt(hi, s.Len)), "slice-bounds")
	fr.regs[v] = &Val{K: VSlice, Typ: v.Type(), T: s.T, Off: Add(s.Off, lo), Len: Sub(hi, lo)}
}

func containsBig(v *Val) bool {
	if v == nil {
		return false
	}
	if v.K == VBig {
		return true
	}
	if v.K == VStruct {
		for _, f := range v.Fields {
			if containsBig(f) {
				return true
			}
		}
	}
	return false
}

func arrayOfPtr(t types.Type) *types.Array {
	if p, ok := types.Unalias(t).Underlying().(*types.Pointer); ok {
		if a, ok := types.Unalias(p.Elem()).Underlying().(*types.Array); ok {
			return a
		}
	}
	return nil
}

// appendSlice models append(s, elems...) as always reallocating (no capacity aliasing).
func (x *Exec) appendOne(st *State, s *Val, e *Val) *Val {
	elemT := sliceElem(s.Typ)
	ref := st.alloc()
	fl := flatten(elemT)
	ls := e.leaves()
	for i, l := range fl {
		key, h := st.heapArr(elemT, l, true)
		old := Select(h, s.T)
		var content *Term
		if s.Off.K == TNum && s.Off.Num.Sign() == 0 {
			content = old
		} else {
			// shifted copy: elements [off, off+len) move to [0, len)
			c := Const(freshName("shift"), old.Sort)
			j := Bound("j", SInt)
			st.Assume(Forall([]*Term{j}, Implies(And(Ge(j, Num(0)), Lt(j, s.Len)), Eq(Select(c, j), Select(old, ElemIdx(s.Off, j)))), []*Term{Select(c, j)}))
			// the new backing array is unconstrained beyond the copied elements: with offset 0 it may be taken equal to the old row
			st.Assume(Implies(Eq(s.Off, Num(0)), Eq(c, old)))
			content = c
		}
		if ls[i] == nil {
			x.note("append of an interior/local pointer")
			continue
		}
		st.setHeap(key, Store(h, ref, Store(content, s.Len, ls[i])))
	}
	return &Val{K: VSlice, Typ: s.Typ, T: ref, Off: Num(0), Len: Add(s.Len, Num(1))}
}

// ---------- maps ----------

func mapTypes(t types.Type) (k, e types.Type) {
	m := types.Unalias(t).Underlying().(*types.Map)
	return m.Key(), m.Elem()
}

func (x *Exec) mapKeySort(t types.Type) (string, bool) {
	k, _ := mapTypes(t)
	fl := flatten(k)
	if len(fl) != 1 {
		return "", false
	}
	return fl[0].Sort, true
}

func (x *Exec) mapArrays(st *State, t types.Type) (hasKey string, has *Term, ok bool) {
	ks, ok := x.mapKeySort(t)
	if !ok {
		return "", nil, false
	}
	key := "map:" + heapTypeKey(t) + "#has"
	if a, found := st.Heap[key]; found {
		return key, a, true
	}
	a := Const("H0:"+key, SArr(SInt, SArr(ks, SBool)))
	st.Heap[key] = a
	return key, a, true
}

func (x *Exec) mapValArr(st *State, t types.Type, l Leaf) (string, *Term) {
	ks, _ := x.mapKeySort(t)
	key := "map:" + heapTypeKey(t) + "#val" + l.Path
	if a, found := st.Heap[key]; found {
		return key, a
	}
	a := Const("H0:"+key, SArr(SInt, SArr(ks, l.Sort)))
	st.Heap[key] = a
	return key, a
}

// mapNext: one step of a map iteration. The iterator either yields a key of the map it has not yielded before (order
// unknown: Go randomises it) or reports the end, and the end is reported only when every key has been yielded.
func (x *Exec) mapNext(fr *Frame, st *State, v *ssa.Next, rg *ssa.Range, cell int, yielded *Term) {
	m := x.get(fr, st, rg.X)
	_, has, _ := x.mapArrays(st, rg.X.Type())
	ks, _ := x.mapKeySort(rg.X.Type())
	ok := Const(freshName("next:ok"), SBool)
	key := Const(freshName("next:key"), ks)
	hasM := Select(has, m.T)
	nonNil := Neq(m.T, Num(0))
	st.Assume(Implies(ok, And(nonNil, Select(hasM, key), Not(Select(yielded, key)))))
	k := Bound("k", ks)
	st.Assume(Implies(Not(ok), Forall([]*Term{k}, Implies(And(nonNil, Select(hasM, k)), Select(yielded, k)), []*Term{Select(hasM, k)})))
	st.Cells[cell] = &Val{K: VArr, T: x.defineAlways(st, Ite(ok, Store(yielded, key, TrueT), yielded), "yielded")}
	tu := v.Type().(*types.Tuple)
	kt, et := mapTypes(rg.X.Type())
	var ls []*Term
	for _, l := range flatten(et) {
		_, arr := x.mapValArr(st, rg.X.Type(), l)
		ls = append(ls, Select(Select(arr, m.T), key))
	}
	val := mkVal(et, &ls)
	keyLeaves := []*Term{key}
	keyVal := mkVal(kt, &keyLeaves)
	_ = tu
	fr.regs[v] = &Val{K: VTuple, Typ: v.Type(), Fields: []*Val{boolVal(ok), keyVal, val}}
}

func (x *Exec) mapInitEmpty(st *State, m *Val) {
	hk, has, ok := x.mapArrays(st, m.Typ)
	if !ok {
		x.note("map with composite key type " + typeString(m.Typ))
		return
	}
	ks, _ := x.mapKeySort(m.Typ)
	// the empty key set: a constant array of false
	empty := &Term{K: TApp, Op: "(as const " + SArr(ks, SBool) + ")", Args: []*Term{FalseT}, Sort: SArr(ks, SBool)}
	st.setHeap(hk, Store(has, m.T, empty))
}

func (x *Exec) mapUpdate(fr *Frame, st *State, v *ssa.MapUpdate) {
	m := x.get(fr, st, v.Map)
	k := x.get(fr, st, v.Key)
	val := x.get(fr, st, v.Value)
	hk, has, ok := x.mapArrays(st, v.Map.Type())
	if !ok || m.K != VMap {
		x.note("map update on unmodelled map in " + fr.fn.Name())
		return
	}
	x.mustNot(fr, st, v, Eq(m.T, Num(0)), "nil-map-write")
	x.checkHeapWrite(fr, st, v, "map:"+heapTypeKey(v.Map.Type())+"#", m.T, "map-update")
	kt := k.leaves()[0]
	st.setHeap(hk, Store(has, m.T, Store(Select(has, m.T), kt, TrueT)))
	_, et := mapTypes(v.Map.Type())
	ls := val.leaves()
	for i, l := range flatten(et) {
		if ls[i] == nil {
			x.note("map value with interior pointer")
			continue
		}
		key, arr := x.mapValArr(st, v.Map.Type(), l)
		st.setHeap(key, Store(arr, m.T, Store(Select(arr, m.T), kt, ls[i])))
	}
}

func (x *Exec) lookup(fr *Frame, st *State, v *ssa.Lookup) {
	if _, isMap := types.Unalias(v.X.Type()).Underlying().(*types.Map); !isMap {
		x.note("string indexing in " + fr.fn.Name())
		fr.regs[v] = freshVal(v.Type(), "chr", true)
		return
	}
	m := x.get(fr, st, v.X)
	k := x.get(fr, st, v.Index)
	_, has, ok := x.mapArrays(st, v.X.Type())
	if !ok || m.K != VMap {
		x.note("map lookup on unmodelled map in " + fr.fn.Name())
		fr.regs[v] = freshVal(v.Type(), "lk", true)
		return
	}
	kt := k.leaves()[0]
	_, et := mapTypes(v.X.Type())
	present := And(Neq(m.T, Num(0)), Select(Select(has, m.T), kt))
	var ls []*Term
	for _, l := range flatten(et) {
		_, arr := x.mapValArr(st, v.X.Type(), l)
		ls = append(ls, Ite(present, Select(Select(arr, m.T), kt), zeroLeaf(l)))
	}
	val := mkVal(et, &ls)
	if v.CommaOk {
		fr.regs[v] = &Val{K: VTuple, Typ: v.Type(), Fields: []*Val{val, boolVal(present)}}
	} else {
		fr.regs[v] = val
	}
}
