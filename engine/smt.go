package main

// SMT term layer: a small typed S-expression AST with constant folding,
// declaration collection and SMT-LIB 2 printing.

import (
	"fmt"
	"math/big"
	"sort"
	"strings"
)

const (
	SInt  = "Int"
	SBool = "Bool"
	SStr  = "Str" // uninterpreted sort for strings / byte strings
)

func SArr(idx, elem string) string { return "(Array " + idx + " " + elem + ")" }

type TKind int

const (
	TNum TKind = iota
	TBoolLit
	TConst // declared constant (0-ary symbol)
	TApp   // interpreted operator or declared function
	TQuant
	TBound // bound variable
)

type Term struct {
	K     TKind
	Op    string // operator / symbol name
	Args  []*Term
	Sort  string
	Num   *big.Int
	B     bool
	Vars  []*Term   // TQuant: bound variables
	Pats  [][]*Term // TQuant: patterns
	UFun  bool      // TApp: Op is a declared (uninterpreted or axiomatised) function
	ASort []string  // TApp+UFun: argument sorts
}

var (
	TrueT  = &Term{K: TBoolLit, B: true, Sort: SBool}
	FalseT = &Term{K: TBoolLit, B: false, Sort: SBool}
)

func Num(n int64) *Term       { return &Term{K: TNum, Num: big.NewInt(n), Sort: SInt} }
func NumBig(n *big.Int) *Term { return &Term{K: TNum, Num: new(big.Int).Set(n), Sort: SInt} }
func NumStr(s string) *Term {
	n, ok := new(big.Int).SetString(s, 10)
	if !ok {
		panic("bad numeral " + s)
	}
	return &Term{K: TNum, Num: n, Sort: SInt}
}
func BoolT(b bool) *Term {
	if b {
		return TrueT
	}
	return FalseT
}
func Const(name, sort string) *Term { return &Term{K: TConst, Op: name, Sort: sort} }
func Bound(name, sort string) *Term { return &Term{K: TBound, Op: name, Sort: sort} }

func (t *Term) IsTrue() bool  { return t.K == TBoolLit && t.B }
func (t *Term) IsFalse() bool { return t.K == TBoolLit && !t.B }
func (t *Term) IsNum() bool   { return t.K == TNum }

func app(op, sort string, args ...*Term) *Term {
	return &Term{K: TApp, Op: op, Sort: sort, Args: args}
}

// UF builds an application of a declared function.
func UF(name string, argSorts []string, sort string, args ...*Term) *Term {
	if len(argSorts) != len(args) {
		panic(fmt.Sprintf("UF %s: arity %d vs %d", name, len(argSorts), len(args)))
	}
	for i, a := range args {
		if a.Sort != argSorts[i] {
			panic(fmt.Sprintf("UF %s: arg %d sort %s, want %s (%s)", name, i, a.Sort, argSorts[i], a))
		}
	}
	return &Term{K: TApp, Op: name, Sort: sort, Args: args, UFun: true, ASort: argSorts}
}

func sameTerm(a, b *Term) bool {
	if a == b {
		return true
	}
	if a.K != b.K || a.Sort != b.Sort || a.Op != b.Op || len(a.Args) != len(b.Args) {
		return false
	}
	switch a.K {
	case TNum:
		return a.Num.Cmp(b.Num) == 0
	case TBoolLit:
		return a.B == b.B
	case TQuant:
		return false
	}
	for i := range a.Args {
		if !sameTerm(a.Args[i], b.Args[i]) {
			return false
		}
	}
	return true
}

func Not(a *Term) *Term {
	if a.Sort != SBool {
		panic("Not on " + a.Sort + ": " + a.String())
	}
	if a.K == TBoolLit {
		return BoolT(!a.B)
	}
	if a.K == TApp && a.Op == "not" {
		return a.Args[0]
	}
	return app("not", SBool, a)
}

func And(as ...*Term) *Term {
	var out []*Term
	for _, a := range as {
		if a.Sort != SBool {
			panic("And on " + a.Sort + ": " + a.String())
		}
		if a.IsTrue() {
			continue
		}
		if a.IsFalse() {
			return FalseT
		}
		if a.K == TApp && a.Op == "and" {
			out = append(out, a.Args...)
		} else {
			out = append(out, a)
		}
	}
	if len(out) == 0 {
		return TrueT
	}
	if len(out) == 1 {
		return out[0]
	}
	return app("and", SBool, out...)
}

func Or(as ...*Term) *Term {
	var out []*Term
	for _, a := range as {
		if a.Sort != SBool {
			panic("Or on " + a.Sort + ": " + a.String())
		}
		if a.IsFalse() {
			continue
		}
		if a.IsTrue() {
			return TrueT
		}
		if a.K == TApp && a.Op == "or" {
			out = append(out, a.Args...)
		} else {
			out = append(out, a)
		}
	}
	if len(out) == 0 {
		return FalseT
	}
	if len(out) == 1 {
		return out[0]
	}
	return app("or", SBool, out...)
}

func Implies(a, b *Term) *Term {
	if a.IsTrue() {
		return b
	}
	if a.IsFalse() || b.IsTrue() {
		return TrueT
	}
	if b.IsFalse() {
		return Not(a)
	}
	return app("=>", SBool, a, b)
}

func Ite(c, a, b *Term) *Term {
	if c.IsTrue() {
		return a
	}
	if c.IsFalse() {
		return b
	}
	if a.Sort != b.Sort {
		panic(fmt.Sprintf("Ite sorts %s vs %s", a.Sort, b.Sort))
	}
	if sameTerm(a, b) {
		return a
	}
	if a.Sort == SBool {
		if a.IsTrue() && b.IsFalse() {
			return c
		}
		if a.IsFalse() && b.IsTrue() {
			return Not(c)
		}
	}
	return app("ite", a.Sort, c, a, b)
}

func Eq(a, b *Term) *Term {
	if a.Sort != b.Sort {
		panic(fmt.Sprintf("Eq sorts %s vs %s: %s / %s", a.Sort, b.Sort, a, b))
	}
	if sameTerm(a, b) {
		return TrueT
	}
	if a.K == TNum && b.K == TNum {
		return BoolT(a.Num.Cmp(b.Num) == 0)
	}
	if a.K == TBoolLit && b.K == TBoolLit {
		return BoolT(a.B == b.B)
	}
	if a.Sort == SBool {
		if b.IsTrue() {
			return a
		}
		if b.IsFalse() {
			return Not(a)
		}
		if a.IsTrue() {
			return b
		}
		if a.IsFalse() {
			return Not(b)
		}
	}
	return app("=", SBool, a, b)
}
func Neq(a, b *Term) *Term { return Not(Eq(a, b)) }

func cmp(op string, a, b *Term) *Term {
	if a.Sort != SInt || b.Sort != SInt {
		panic(fmt.Sprintf("%s on %s,%s: %s / %s", op, a.Sort, b.Sort, a, b))
	}
	if a.K == TNum && b.K == TNum {
		c := a.Num.Cmp(b.Num)
		switch op {
		case "<":
			return BoolT(c < 0)
		case "<=":
			return BoolT(c <= 0)
		case ">":
			return BoolT(c > 0)
		case ">=":
			return BoolT(c >= 0)
		}
	}
	return app(op, SBool, a, b)
}
func Lt(a, b *Term) *Term { return cmp("<", a, b) }
func Le(a, b *Term) *Term { return cmp("<=", a, b) }
func Gt(a, b *Term) *Term { return cmp(">", a, b) }
func Ge(a, b *Term) *Term { return cmp(">=", a, b) }

func Add(a, b *Term) *Term {
	chkInt("+", a, b)
	if a.K == TNum && b.K == TNum {
		return NumBig(new(big.Int).Add(a.Num, b.Num))
	}
	if a.K == TNum && a.Num.Sign() == 0 {
		return b
	}
	if b.K == TNum && b.Num.Sign() == 0 {
		return a
	}
	// (x + c1) + c2  ==>  x + (c1+c2)
	if b.K == TNum && a.K == TApp && a.Op == "+" && !a.UFun && len(a.Args) == 2 && a.Args[1].K == TNum {
		return Add(a.Args[0], NumBig(new(big.Int).Add(a.Args[1].Num, b.Num)))
	}
	return app("+", SInt, a, b)
}
func Sub(a, b *Term) *Term {
	chkInt("-", a, b)
	if a.K == TNum && b.K == TNum {
		return NumBig(new(big.Int).Sub(a.Num, b.Num))
	}
	if b.K == TNum && b.Num.Sign() == 0 {
		return a
	}
	if sameTerm(a, b) {
		return Num(0)
	}
	return app("-", SInt, a, b)
}
func Neg(a *Term) *Term { return Sub(Num(0), a) }
func Mul(a, b *Term) *Term {
	chkInt("*", a, b)
	if a.K == TNum && b.K == TNum {
		return NumBig(new(big.Int).Mul(a.Num, b.Num))
	}
	if a.K == TNum && a.Num.Cmp(big.NewInt(1)) == 0 {
		return b
	}
	if b.K == TNum && b.Num.Cmp(big.NewInt(1)) == 0 {
		return a
	}
	if (a.K == TNum && a.Num.Sign() == 0) || (b.K == TNum && b.Num.Sign() == 0) {
		return Num(0)
	}
	return app("*", SInt, a, b)
}

// Div / Mod are SMT-LIB euclidean div/mod; only used with positive numeral divisors.
func DivC(a *Term, d *Term) *Term {
	chkInt("div", a, d)
	if d.K != TNum || d.Num.Sign() <= 0 {
		panic("DivC needs positive numeral divisor")
	}
	if a.K == TNum {
		q, m := new(big.Int).DivMod(a.Num, d.Num, new(big.Int))
		_ = m
		return NumBig(q)
	}
	return app("div", SInt, a, d)
}
func ModC(a *Term, d *Term) *Term {
	chkInt("mod", a, d)
	if d.K != TNum || d.Num.Sign() <= 0 {
		panic("ModC needs positive numeral divisor")
	}
	if a.K == TNum {
		_, m := new(big.Int).DivMod(a.Num, d.Num, new(big.Int))
		return NumBig(m)
	}
	return app("mod", SInt, a, d)
}

func chkInt(op string, a, b *Term) {
	if a.Sort != SInt || b.Sort != SInt {
		panic(fmt.Sprintf("%s on %s,%s: %s / %s", op, a.Sort, b.Sort, a, b))
	}
}

func Select(arr, idx *Term) *Term {
	is, es := arrSorts(arr.Sort)
	if idx.Sort != is {
		panic(fmt.Sprintf("select index sort %s want %s", idx.Sort, is))
	}
	// read-over-write on syntactically equal / provably distinct indices, looking through named heap versions (a constant
	// introduced by setHeap for `store(previous version, ref, value)`): a value written to a fresh object and read back is the
	// value itself, so that the same program value is the same term on every path
	orig := arr
	for {
		if arr.K == TConst {
			if def, ok := heapDefs[arr.Op]; ok {
				arr = def
				continue
			}
		}
		if arr.K != TApp || arr.Op != "store" {
			break
		}
		if sameTerm(arr.Args[1], idx) {
			return arr.Args[2]
		}
		if distinctIndex(arr.Args[1], idx) {
			arr = arr.Args[0]
			continue
		}
		break
	}
	if arr.K == TApp && arr.Op == "store" {
		arr = orig // undecided at some store: keep the short name
	}
	return app("select", es, arr, idx)
}

// heapDefs: named heap versions of the unit being verified (constant name -> the store term it stands for).
var heapDefs = map[string]*Term{}

// distinctIndex: two references allocated by this unit at different offsets of the allocation counter, or two different numerals.
func distinctIndex(a, b *Term) bool {
	if a.K == TNum && b.K == TNum {
		return a.Num.Cmp(b.Num) != 0
	}
	ba, ka, oka := baseOffset(a)
	bb, kb, okb := baseOffset(b)
	return oka && okb && ba == bb && ka != kb
}

func baseOffset(t *Term) (string, int64, bool) {
	if t.K == TConst && (t.Op == "ref:base" || strings.HasPrefix(t.Op, "ref:next")) {
		return t.Op, 0, true
	}
	if t.K == TApp && t.Op == "+" && len(t.Args) == 2 && t.Args[1].K == TNum && t.Args[1].Num.IsInt64() {
		if b, k, ok := baseOffset(t.Args[0]); ok {
			return b, k + t.Args[1].Num.Int64(), true
		}
	}
	return "", 0, false
}
func Store(arr, idx, v *Term) *Term {
	is, es := arrSorts(arr.Sort)
	if idx.Sort != is || v.Sort != es {
		panic(fmt.Sprintf("store sorts idx %s/%s val %s/%s", idx.Sort, is, v.Sort, es))
	}
	return app("store", arr.Sort, arr, idx, v)
}

// arrSorts splits "(Array I E)".
func arrSorts(s string) (string, string) {
	if !strings.HasPrefix(s, "(Array ") {
		panic("not an array sort: " + s)
	}
	body := s[len("(Array ") : len(s)-1]
	// first sort token
	depth := 0
	for i, c := range body {
		switch c {
		case '(':
			depth++
		case ')':
			depth--
		case ' ':
			if depth == 0 {
				return body[:i], body[i+1:]
			}
		}
	}
	panic("bad array sort " + s)
}

func Forall(vars []*Term, body *Term, pats ...[]*Term) *Term {
	if body.IsTrue() {
		return TrueT
	}
	if len(vars) == 0 {
		return body
	}
	return &Term{K: TQuant, Op: "forall", Vars: vars, Args: []*Term{body}, Pats: pats, Sort: SBool}
}
func Exists(vars []*Term, body *Term) *Term {
	if len(vars) == 0 {
		return body
	}
	return &Term{K: TQuant, Op: "exists", Vars: vars, Args: []*Term{body}, Sort: SBool}
}

// ---------- printing ----------

func smtName(s string) string {
	ok := true
	for _, c := range s {
		if !(c >= 'a' && c <= 'z' || c >= 'A' && c <= 'Z' || c >= '0' && c <= '9' || strings.ContainsRune("_.$!~@%^&*-+<>=/?", c)) {
			ok = false
			break
		}
	}
	if ok && len(s) > 0 && !(s[0] >= '0' && s[0] <= '9') {
		return s
	}
	return "|" + strings.ReplaceAll(s, "|", "!") + "|"
}

func (t *Term) String() string {
	var sb strings.Builder
	t.write(&sb)
	return sb.String()
}

func (t *Term) write(sb *strings.Builder) {
	switch t.K {
	case TNum:
		if t.Num.Sign() < 0 {
			sb.WriteString("(- ")
			sb.WriteString(new(big.Int).Neg(t.Num).String())
			sb.WriteString(")")
		} else {
			sb.WriteString(t.Num.String())
		}
	case TBoolLit:
		if t.B {
			sb.WriteString("true")
		} else {
			sb.WriteString("false")
		}
	case TConst, TBound:
		sb.WriteString(smtName(t.Op))
	case TApp:
		if len(t.Args) == 0 {
			sb.WriteString(smtName(t.Op))
			return
		}
		sb.WriteString("(")
		if t.UFun {
			sb.WriteString(smtName(t.Op))
		} else {
			sb.WriteString(t.Op)
		}
		for _, a := range t.Args {
			sb.WriteString(" ")
			a.write(sb)
		}
		sb.WriteString(")")
	case TQuant:
		sb.WriteString("(" + t.Op + " (")
		for i, v := range t.Vars {
			if i > 0 {
				sb.WriteString(" ")
			}
			sb.WriteString("(" + smtName(v.Op) + " " + v.Sort + ")")
		}
		sb.WriteString(") ")
		if len(t.Pats) > 0 {
			sb.WriteString("(! ")
			t.Args[0].write(sb)
			for _, p := range t.Pats {
				sb.WriteString(" :pattern (")
				for i, pt := range p {
					if i > 0 {
						sb.WriteString(" ")
					}
					pt.write(sb)
				}
				sb.WriteString(")")
			}
			sb.WriteString(")")
		} else {
			t.Args[0].write(sb)
		}
		sb.WriteString(")")
	}
}

// Decls collects constant and function declarations of a set of terms.
type Decls struct {
	consts map[string]string   // name -> sort
	funs   map[string][]string // name -> arg sorts + result sort
	sorts  map[string]bool
}

func NewDecls() *Decls {
	return &Decls{consts: map[string]string{}, funs: map[string][]string{}, sorts: map[string]bool{}}
}

func (d *Decls) noteSort(s string) {
	if strings.Contains(s, SStr) {
		d.sorts[SStr] = true
	}
}

func (d *Decls) Walk(t *Term) {
	switch t.K {
	case TConst:
		if s, ok := d.consts[t.Op]; ok && s != t.Sort {
			panic(fmt.Sprintf("constant %s declared with sorts %s and %s", t.Op, s, t.Sort))
		}
		d.consts[t.Op] = t.Sort
		d.noteSort(t.Sort)
	case TApp:
		d.noteSort(t.Sort)
		if t.UFun {
			sig := append(append([]string{}, t.ASort...), t.Sort)
			if old, ok := d.funs[t.Op]; ok && strings.Join(old, ",") != strings.Join(sig, ",") {
				panic(fmt.Sprintf("function %s declared with two signatures: %v / %v", t.Op, old, sig))
			}
			d.funs[t.Op] = sig
			for _, s := range sig {
				d.noteSort(s)
			}
		}
		for _, a := range t.Args {
			d.Walk(a)
		}
	case TQuant:
		for _, v := range t.Vars {
			d.noteSort(v.Sort)
		}
		d.Walk(t.Args[0])
		for _, p := range t.Pats {
			for _, pt := range p {
				d.Walk(pt)
			}
		}
	}
}

func (d *Decls) Print(sb *strings.Builder, skipFuns map[string]bool) {
	if d.sorts[SStr] {
		sb.WriteString("(declare-sort Str 0)\n")
	}
	var names []string
	for n := range d.consts {
		names = append(names, n)
	}
	sort.Strings(names)
	for _, n := range names {
		fmt.Fprintf(sb, "(declare-fun %s () %s)\n", smtName(n), d.consts[n])
	}
	names = names[:0]
	for n := range d.funs {
		if skipFuns[n] {
			continue
		}
		names = append(names, n)
	}
	sort.Strings(names)
	for _, n := range names {
		sig := d.funs[n]
		fmt.Fprintf(sb, "(declare-fun %s (%s) %s)\n", smtName(n), strings.Join(sig[:len(sig)-1], " "), sig[len(sig)-1])
	}
}

// subst replaces bound variables / constants by name.
func subst(t *Term, m map[string]*Term) *Term {
	switch t.K {
	case TConst, TBound:
		if r, ok := m[t.Op]; ok {
			return r
		}
		return t
	case TApp:
		changed := false
		args := make([]*Term, len(t.Args))
		for i, a := range t.Args {
			args[i] = subst(a, m)
			if args[i] != a {
				changed = true
			}
		}
		if !changed {
			return t
		}
		n := *t
		n.Args = args
		return &n
	case TQuant:
		m2 := m
		for _, v := range t.Vars {
			if _, ok := m[v.Op]; ok {
				if &m2 == &m || len(m2) == len(m) {
					m2 = map[string]*Term{}
					for k, x := range m {
						m2[k] = x
					}
				}
				delete(m2, v.Op)
			}
		}
		n := *t
		n.Args = []*Term{subst(t.Args[0], m2)}
		n.Pats = nil
		for _, p := range t.Pats {
			var np []*Term
			for _, pt := range p {
				np = append(np, subst(pt, m2))
			}
			n.Pats = append(n.Pats, np)
		}
		return &n
	}
	return t
}

// collectApps gathers applications of function `name` (outside quantifiers
// that bind their arguments) for eager axiom instantiation.
func collectApps(t *Term, pred func(*Term) bool, bound map[string]bool, out *[]*Term, seen map[string]bool) {
	switch t.K {
	case TApp:
		for _, a := range t.Args {
			collectApps(a, pred, bound, out, seen)
		}
		if pred(t) && !mentionsBound(t, bound) {
			k := t.String()
			if !seen[k] {
				seen[k] = true
				*out = append(*out, t)
			}
		}
	case TQuant:
		b2 := map[string]bool{}
		for k := range bound {
			b2[k] = true
		}
		for _, v := range t.Vars {
			b2[v.Op] = true
		}
		collectApps(t.Args[0], pred, b2, out, seen)
	}
}

func mentionsBound(t *Term, bound map[string]bool) bool {
	if len(bound) == 0 {
		return false
	}
	switch t.K {
	case TBound:
		return bound[t.Op]
	case TApp:
		for _, a := range t.Args {
			if mentionsBound(a, bound) {
				return true
			}
		}
	case TQuant:
		return mentionsBound(t.Args[0], bound)
	}
	return false
}
