package main

// Effect checker (back end "effect-checker"): modular frame obligations over a finite lattice.
// Every function of the consensus-relevant packages has a declared effect set (package default or
// an `effects` override in the contract files); for each call instruction the callee's declared
// effects (or the library table) must be contained in the caller's declared effects. Checked against
// declarations only — never by whole-program reachability.

import (
	"go/constant"
	"fmt"
	"go/token"
	"go/types"
	"sort"
	"strings"

	"golang.org/x/tools/go/ssa"
)

const (
	EffMint     = "bank.mint"
	EffBurn     = "bank.burn"
	EffSend     = "bank.send"
	EffTime     = "nondet.time"
	EffRand     = "nondet.rand"
	EffMapRange = "nondet.maprange"
	EffGo       = "nondet.goroutine"
	EffGlobalW  = "global.write"
	EffSetAcct  = "auth.setaccount"
	// a time.Time carrying the PROCESS-LOCAL zone (time.Unix and friends return one): its calendar arithmetic (AddDate, Date,
	// Truncate to days ...) and its text (String, Format) differ between hosts with different zone settings
	EffZone = "nondet.localzone"
)

// ArgOrderDecl: a wiring fact about a call whose arguments are string constants (module names in the module manager's
// ordering calls): the listed names appear among the arguments in this relative order.
type ArgOrderDecl struct {
	Calls  bool // callorder: Names are callee names; each must be called, and every call of a later one is dominated by a call of the one before it
	Prop   string
	Func   string
	Method string
	Names  []string
}

type EffectDecl struct {
	Key     string // contract key, or "package:<path>"
	Effects []string
}

func effectSet(xs []string) map[string]bool {
	m := map[string]bool{}
	for _, x := range xs {
		m[x] = true
	}
	return m
}

// libEffects: effects of dependency functions. Everything not listed is assumed effect-free
// with respect to this lattice (an assumption listed in the evidence).
func libEffects(name string) []string {
	n := normLib(name)
	switch {
	case n == "keeper:BankKeeper.MintCoins":
		return []string{EffMint}
	case n == "keeper:BankKeeper.BurnCoins":
		return []string{EffBurn}
	case strings.HasPrefix(n, "keeper:BankKeeper.Send"):
		return []string{EffSend}
	case strings.HasPrefix(n, "keeper:BankKeeper.Delegate"), strings.HasPrefix(n, "keeper:BankKeeper.Undelegate"):
		return []string{EffSend}
	case n == "keeper:AccountKeeper.SetAccount", n == "keeper:AccountKeeper.SetModuleAccount",
		n == "(github.com/cosmos/cosmos-sdk/x/auth/keeper.AccountKeeper).SetAccount":
		return []string{EffSetAcct}
	case n == "time.Now", n == "time.Since", n == "time.Until":
		return []string{EffTime}
	case n == "time.Unix", n == "time.UnixMilli", n == "time.UnixMicro", n == "(time.Time).Local", n == "time.LoadLocation":
		return []string{EffZone}
	case strings.HasPrefix(n, "math/rand."), strings.HasPrefix(n, "(*math/rand.Rand)."), strings.HasPrefix(n, "crypto/rand."):
		return []string{EffRand}
	}
	return nil
}

var effectScopeExclude = []string{"/simulation", "/client/", "/testutil", "/types/query", "/docs"}

func inEffectScope(pkgPath string) bool {
	if !strings.HasPrefix(pkgPath, repoModule+"/x/") && !strings.HasPrefix(pkgPath, repoModule+"/app/upgrades") && pkgPath != repoModule+"/app" {
		return false
	}
	for _, e := range effectScopeExclude {
		if strings.Contains(pkgPath, e) {
			return false
		}
	}
	return true
}

type effectChecker struct {
	p        *Program
	declared map[string][]string // contract key -> effects
	pkgDef   map[string][]string // package path -> default effects
	obs      []*Obligation
	entry    []string
	// the effects the property being checked is about: containment obligations ignore every other effect (a vesting handler that
	// starts formatting a local-zone time breaks determinism, C11, not the supply rule, C01)
	interest map[string]bool
}

func (ec *effectChecker) declaredOf(fn *ssa.Function) ([]string, string) {
	root := fn
	for root.Parent() != nil {
		root = root.Parent()
	}
	key := contractKeyOf(root)
	if e, ok := ec.declared[key]; ok {
		return e, key
	}
	if root.Pkg != nil {
		if e, ok := ec.pkgDef[root.Pkg.Pkg.Path()]; ok {
			return e, key
		}
	}
	return nil, key
}

// timeOnlyToTelemetry: every use of a time.Now()/Since value is an argument of a telemetry call.
func timeOnlyToTelemetry(v ssa.Value) bool {
	refs := v.Referrers()
	if refs == nil {
		return false
	}
	for _, r := range *refs {
		switch u := r.(type) {
		case *ssa.DebugRef:
			continue
		case ssa.CallInstruction:
			c := u.Common()
			name := ""
			if f := c.StaticCallee(); f != nil {
				name = f.String()
			}
			if strings.HasPrefix(name, "github.com/cosmos/cosmos-sdk/telemetry.") {
				continue
			}
			return false
		default:
			return false
		}
	}
	return true
}

// zoneIndependentUses: every use of the local-zone time value v is a call of a time.Time method whose result does not depend
// on the zone (conversion to UTC, the instant as a number, comparisons of instants).
func zoneIndependentUses(v ssa.Value) bool {
	refs := v.Referrers()
	if refs == nil {
		return false
	}
	ok := map[string]bool{"UTC": true, "Unix": true, "UnixNano": true, "UnixMilli": true, "UnixMicro": true, "Before": true, "After": true,
		"Equal": true, "Sub": true, "IsZero": true, "Compare": true}
	for _, r := range *refs {
		switch u := r.(type) {
		case *ssa.DebugRef:
			continue
		case ssa.CallInstruction:
			c := u.Common()
			f := c.StaticCallee()
			if f == nil || f.Signature.Recv() == nil || len(c.Args) == 0 || c.Args[0] != v || !strings.HasPrefix(f.String(), "(time.Time).") || !ok[f.Name()] {
				return false
			}
		default:
			return false
		}
	}
	return true
}

// exemptLibEffects: the two use-based exemptions (wall-clock reads that only feed telemetry; local-zone times whose every use
// is zone independent).
func exemptLibEffects(effs []string, in ssa.Instruction) ([]string, string) {
	if len(effs) != 1 {
		return effs, ""
	}
	val, isVal := in.(ssa.Value)
	if !isVal {
		return effs, ""
	}
	if effs[0] == EffTime && timeOnlyToTelemetry(val) {
		return nil, "(->telemetry only)"
	}
	if effs[0] == EffZone && zoneIndependentUses(val) {
		return nil, "(->zone-independent uses only)"
	}
	return effs, ""
}

func (ec *effectChecker) checkFunction(fn *ssa.Function, top *ssa.Function, ord map[string]int) {
	decl, key := ec.declaredOf(top)
	allowed := effectSet(decl)
	emit := func(what string, effs []string, pos token.Pos) {
		ord[what]++
		name := fmt.Sprintf("%s/effect@%s#%d", key, what, ord[what])
		var missing []string
		for _, e := range effs {
			if !allowed[e] && (ec.interest == nil || ec.interest[e]) {
				missing = append(missing, e)
			}
		}
		o := &Obligation{Name: name, Kind: "effect", Func: key, Goal: TrueT, Solver: "effect-checker",
			Note: fmt.Sprintf("effects of %s %v within declared %v", what, effs, decl)}
		if len(missing) == 0 {
			o.Status = "discharged"
		} else {
			o.Status = "failed"
			o.Goal = FalseT
			o.Output = fmt.Sprintf("effect(s) %v of %s are not in the declared effect set %v of %s (%s)", missing, what, decl, key, fn.Prog.Fset.Position(pos))
		}
		ec.obs = append(ec.obs, o)
	}
	for _, b := range fn.Blocks {
		for _, in := range b.Instrs {
			switch v := in.(type) {
			case *ssa.MakeClosure:
				ec.checkFunction(v.Fn.(*ssa.Function), top, ord)
			case *ssa.Go:
				emit("go-statement", []string{EffGo}, v.Pos())
			case *ssa.Range:
				if _, isMap := types.Unalias(v.X.Type()).Underlying().(*types.Map); isMap {
					if benignKeyCollection(v) {
						emit("map-range(keys collected then sorted)", nil, v.Pos())
					} else {
						emit("map-range", []string{EffMapRange}, v.Pos())
					}
				}
			case *ssa.Store:
				if g, ok := v.Addr.(*ssa.Global); ok && fn.Name() != "init" && !strings.HasPrefix(fn.Name(), "init#") {
					emit("write:"+g.Name(), []string{EffGlobalW}, v.Pos())
				}
			case *ssa.UnOp:
				// reading the package variable time.Local hands out the host's zone
				if g, ok := v.X.(*ssa.Global); ok && v.Op == token.MUL && g.Pkg != nil && g.Pkg.Pkg.Path() == "time" && g.Name() == "Local" {
					emit("read:time.Local", []string{EffZone}, v.Pos())
				}
			}
			ci, ok := in.(ssa.CallInstruction)
			if !ok {
				continue
			}
			c := ci.Common()
			if _, isB := c.Value.(*ssa.Builtin); isB {
				continue
			}
			var effs []string
			what := ""
			if c.IsInvoke() {
				what = c.Method.FullName()
				effs = libEffects(what)
				what = normLib(what)
			} else if f := c.StaticCallee(); f != nil {
				what = f.String()
				if inRepo(f) && f.Parent() == nil {
					if f.Pkg != nil && !inEffectScope(f.Pkg.Pkg.Path()) {
						// helper outside the consensus scope (e.g. simulation): treated as effect-free
						effs = nil
					} else {
						effs, _ = ec.declaredOf(f)
					}
					what = contractKeyOf(f)
				} else if inRepo(f) {
					continue // closure called directly: its body is checked as part of the parent
				} else {
					var tag string
					effs, tag = exemptLibEffects(libEffects(what), in)
					what += tag
				}
			} else {
				// call through a function value: closures of this function are checked in place; others unknown
				what = "dynamic-call"
				effs = nil
			}
			short := what
			if i := strings.LastIndex(short, "/"); i >= 0 {
				short = short[i+1:]
			}
			emit("call:"+short, effs, in.Pos())
		}
	}
}

// isEntryPoint: state-transition and query entry points of the modules.
func isEntryPoint(fn *ssa.Function) bool {
	if fn.Signature.Recv() == nil {
		n := fn.Name()
		return n == "BeginBlocker" || n == "EndBlocker" || n == "InitGenesis" || n == "ExportGenesis" || n == "CreateUpgradeHandler"
	}
	rt := fn.Signature.Recv().Type()
	if p, ok := rt.(*types.Pointer); ok {
		rt = p.Elem()
	}
	named, ok := types.Unalias(rt).(*types.Named)
	if !ok {
		return false
	}
	switch named.Obj().Name() {
	case "msgServer":
		return fn.Synthetic == ""
	case "App":
		// the application's own ABCI steps (app/app.go): what they do besides running the module manager is consensus code too
		n := fn.Name()
		return n == "InitChainer" || n == "BeginBlocker" || n == "EndBlocker"
	case "AppModule":
		n := fn.Name()
		return n == "BeginBlock" || n == "EndBlock" || n == "InitGenesis" || n == "ExportGenesis"
	case "Keeper":
		// gRPC queries: (goCtx context.Context, req *types.QueryXRequest)
		sig := fn.Signature
		if sig.Params().Len() == 2 && strings.HasSuffix(typeString(sig.Params().At(0).Type()), "context.Context") &&
			strings.Contains(typeString(sig.Params().At(1).Type()), "Query") {
			return true
		}
	case "Migrator":
		return strings.HasPrefix(fn.Name(), "Migrate")
	}
	return false
}

// runEffectCheck produces the effect obligations. forbidEntry: effects no entry point (of the given
// module filter) may declare; entryFilter selects the packages whose entry points are constrained.
func runEffectCheck(p *Program, label string, forbidEntry map[string]bool, entryFilter func(pkg string) bool, allowEntry ...func(key string) bool) *FuncReport {
	ec := &effectChecker{p: p, declared: map[string][]string{}, pkgDef: map[string][]string{}, interest: forbidEntry}
	for _, d := range p.Specs.Effects {
		if strings.HasPrefix(d.Key, "package:") {
			ec.pkgDef[strings.TrimPrefix(d.Key, "package:")] = d.Effects
		} else {
			ec.declared[d.Key] = d.Effects
		}
	}
	var keys []string
	for k := range p.Funcs {
		keys = append(keys, k)
	}
	sort.Strings(keys)
	seen := map[*ssa.Function]bool{}
	nfun := 0
	for _, k := range keys {
		fn := p.Funcs[k]
		if seen[fn] || fn.Pkg == nil || !inEffectScope(fn.Pkg.Pkg.Path()) || fn.Synthetic != "" {
			continue
		}
		file := fn.Prog.Fset.Position(fn.Pos()).Filename
		if strings.HasSuffix(file, ".pb.go") || strings.HasSuffix(file, ".pb.gw.go") || strings.HasSuffix(file, "_test.go") {
			continue
		}
		seen[fn] = true
		nfun++
		ec.checkFunction(fn, fn, map[string]int{})
		if isEntryPoint(fn) && entryFilter(fn.Pkg.Pkg.Path()) {
			decl, key := ec.declaredOf(fn)
			var bad []string
			for _, e := range decl {
				if forbidEntry[e] {
					if len(allowEntry) > 0 && allowEntry[0](key) {
						// this entry point is one of the operations the property allows to have the effect
						continue
					}
					if e == EffRand && isQuery(fn) {
						// a gRPC query cannot change state; a fresh random identifier in a query answer
						// (CreateReferenceId) is its documented behaviour and is listed, not flagged
						continue
					}
					bad = append(bad, e)
				}
			}
			o := &Obligation{Name: key + "/effect@entry-point", Kind: "effect", Func: key, Goal: TrueT, Solver: "effect-checker", Status: "discharged",
				Note: fmt.Sprintf("entry point declares %v; forbidden here: %v", decl, keysOf(forbidEntry))}
			if len(bad) > 0 {
				o.Status, o.Goal = "failed", FalseT
				o.Output = fmt.Sprintf("entry point %s declares forbidden effect(s) %v", key, bad)
			}
			ec.obs = append(ec.obs, o)
			ec.entry = append(ec.entry, key)
		}
	}
	// every override must name an existing function (no stale declarations)
	for k := range ec.declared {
		if _, ok := p.Funcs[k]; !ok {
			ec.obs = append(ec.obs, &Obligation{Name: k + "/target-exists", Kind: "target-exists", Func: k, Goal: FalseT, Status: "failed", Solver: "effect-checker",
				Output: "effects declared for a function that does not exist"})
		}
	}
	rep := &FuncReport{Key: "effects:" + label, Obligations: ec.obs}
	rep.Abstractions = []string{
		fmt.Sprintf("effect checker: %d functions, %d entry points; dependency functions not in the effect table are assumed effect-free for this lattice", nfun, len(ec.entry)),
		"calls through function values other than the function's own closures are assumed effect-free",
	}
	return rep
}

func keysOf(m map[string]bool) []string {
	var ks []string
	for k := range m {
		ks = append(ks, k)
	}
	sort.Strings(ks)
	return ks
}

// cmdEffectsInfer prints, per package, the least effect declarations that make every call obligation
// hold (an annotation assistant: the output is reviewed and committed into the contract files; the
// check itself only ever compares against the committed declarations).
func cmdEffectsInfer(p *Program) {
	eff := map[*ssa.Function]map[string]bool{}
	var fns []*ssa.Function
	seen := map[*ssa.Function]bool{}
	for _, fn := range p.Funcs {
		if seen[fn] || fn.Pkg == nil || !inEffectScope(fn.Pkg.Pkg.Path()) || fn.Synthetic != "" {
			continue
		}
		seen[fn] = true
		fns = append(fns, fn)
		eff[fn] = map[string]bool{}
	}
	var scan func(fn, top *ssa.Function) bool
	scan = func(fn, top *ssa.Function) bool {
		changed := false
		add := func(es []string) {
			for _, e := range es {
				if !eff[top][e] {
					eff[top][e] = true
					changed = true
				}
			}
		}
		for _, b := range fn.Blocks {
			for _, in := range b.Instrs {
				switch v := in.(type) {
				case *ssa.MakeClosure:
					if scan(v.Fn.(*ssa.Function), top) {
						changed = true
					}
				case *ssa.Go:
					add([]string{EffGo})
				case *ssa.Range:
					if _, isMap := types.Unalias(v.X.Type()).Underlying().(*types.Map); isMap && !benignKeyCollection(v) {
						add([]string{EffMapRange})
					}
				case *ssa.Store:
					if _, ok := v.Addr.(*ssa.Global); ok && fn.Name() != "init" && !strings.HasPrefix(fn.Name(), "init#") {
						add([]string{EffGlobalW})
					}
				case *ssa.UnOp:
					if g, ok := v.X.(*ssa.Global); ok && v.Op == token.MUL && g.Pkg != nil && g.Pkg.Pkg.Path() == "time" && g.Name() == "Local" {
						add([]string{EffZone})
					}
				}
				ci, ok := in.(ssa.CallInstruction)
				if !ok {
					continue
				}
				c := ci.Common()
				if c.IsInvoke() {
					add(libEffects(c.Method.FullName()))
				} else if f := c.StaticCallee(); f != nil {
					if inRepo(f) && f.Parent() == nil {
						if m, ok := eff[f]; ok {
							for e := range m {
								add([]string{e})
							}
						}
					} else if !inRepo(f) {
						es, _ := exemptLibEffects(libEffects(f.String()), in)
						add(es)
					}
				}
			}
		}
		return changed
	}
	for changed := true; changed; {
		changed = false
		for _, fn := range fns {
			if scan(fn, fn) {
				changed = true
			}
		}
	}
	byPkg := map[string][]string{}
	for _, fn := range fns {
		if len(eff[fn]) == 0 {
			continue
		}
		key := contractKeyOf(fn)
		pkg := fn.Pkg.Pkg.Path()
		byPkg[pkg] = append(byPkg[pkg], fmt.Sprintf("//@ effects %s %s", strings.TrimPrefix(key, pkg+"."), strings.Join(keysOf(eff[fn]), " ")))
	}
	var pkgs []string
	for k := range byPkg {
		pkgs = append(pkgs, k)
	}
	sort.Strings(pkgs)
	for _, k := range pkgs {
		fmt.Println("## " + k)
		sort.Strings(byPkg[k])
		for _, l := range byPkg[k] {
			fmt.Println(l)
		}
	}
}

// benignKeyCollection recognises the order-insensitive idiom
//     for k := range m { keys = append(keys, k) } ; sort.Strings(keys)
// the loop only appends the key to one slice, and outside the loop that slice is handed to a
// sort function before any other use. Such a range does not leak the iteration order.
func benignKeyCollection(r *ssa.Range) bool {
	refs := r.Referrers()
	if refs == nil {
		return false
	}
	var next *ssa.Next
	for _, u := range *refs {
		if n, ok := u.(*ssa.Next); ok {
			if next != nil {
				return false
			}
			next = n
		}
	}
	if next == nil {
		return false
	}
	h := next.Block()
	if !isLoopHeader(h) {
		return false
	}
	body := loopBody(h)
	var acc *ssa.Phi
	for b := range body {
		for _, in := range b.Instrs {
			switch v := in.(type) {
			case *ssa.Phi:
				if b == h {
					if _, isSlice := types.Unalias(v.Type()).Underlying().(*types.Slice); isSlice {
						if acc != nil {
							return false
						}
						acc = v
					} else {
						return false
					}
				}
			case *ssa.Next, *ssa.Extract, *ssa.Alloc, *ssa.IndexAddr, *ssa.Store, *ssa.Slice, *ssa.If, *ssa.Jump, *ssa.DebugRef:
			case *ssa.Call:
				if bi, ok := v.Call.Value.(*ssa.Builtin); !ok || bi.Name() != "append" {
					return false
				}
			default:
				return false
			}
		}
	}
	if acc == nil || acc.Referrers() == nil {
		return false
	}
	sorted := false
	var sortCall ssa.Instruction
	for _, u := range *acc.Referrers() {
		if body[u.Block()] {
			continue
		}
		if _, ok := u.(*ssa.DebugRef); ok {
			continue
		}
		if c, ok := u.(*ssa.Call); ok {
			if f := c.Call.StaticCallee(); f != nil && (f.String() == "sort.Strings" || f.String() == "sort.Slice" || f.String() == "sort.SliceStable" || f.String() == "sort.Ints") {
				sorted = true
				sortCall = u
			}
		}
	}
	if !sorted {
		return false
	}
	for _, u := range *acc.Referrers() {
		if body[u.Block()] || u == sortCall {
			continue
		}
		if _, ok := u.(*ssa.DebugRef); ok {
			continue
		}
		if !(sortCall.Block().Dominates(u.Block())) {
			return false
		}
		if sortCall.Block() == u.Block() {
			// the sort call must come first in the block
			for _, in := range u.Block().Instrs {
				if in == sortCall {
					break
				}
				if in == u {
					return false
				}
			}
		}
	}
	return true
}

func isQuery(fn *ssa.Function) bool {
	sig := fn.Signature
	return sig.Recv() != nil && sig.Params().Len() == 2 && strings.HasSuffix(typeString(sig.Params().At(0).Type()), "context.Context") &&
		strings.Contains(typeString(sig.Params().At(1).Type()), "Query")
}

// runParamsWriterCheck (C13): every instruction that writes the module's ParamsKey directly
// (store.Set(types.ParamsKey, ...)) must sit in Keeper.SetParams — the function proved to validate
// before writing — or in a store migration. One obligation per such instruction.
func runParamsWriterCheck(p *Program) *FuncReport {
	rep := &FuncReport{Key: "params-writers"}
	var keys []string
	for k := range p.Funcs {
		keys = append(keys, k)
	}
	sort.Strings(keys)
	seen := map[*ssa.Function]bool{}
	n := 0
	var visit func(fn, top *ssa.Function)
	visit = func(fn, top *ssa.Function) {
		for _, b := range fn.Blocks {
			for _, in := range b.Instrs {
				if mc, ok := in.(*ssa.MakeClosure); ok {
					visit(mc.Fn.(*ssa.Function), top)
				}
				ci, ok := in.(ssa.CallInstruction)
				if !ok {
					continue
				}
				c := ci.Common()
				name := ""
				var keyArg ssa.Value
				if c.IsInvoke() && (c.Method.Name() == "Set" || c.Method.Name() == "Delete") && len(c.Args) >= 1 {
					name = c.Method.FullName()
					keyArg = c.Args[0]
				} else if f := c.StaticCallee(); f != nil && (f.Name() == "Set" || f.Name() == "Delete") && strings.Contains(f.String(), "store/prefix.Store") && len(c.Args) >= 2 {
					name = f.String()
					keyArg = c.Args[1]
				}
				if keyArg == nil || !strings.Contains(name, "store") {
					continue
				}
				u, ok := keyArg.(*ssa.UnOp)
				if !ok {
					continue
				}
				g, ok := u.X.(*ssa.Global)
				if !ok || g.Name() != "ParamsKey" {
					continue
				}
				n++
				key := contractKeyOf(top)
				o := &Obligation{Name: fmt.Sprintf("%s/params-writer#%d", key, n), Kind: "effect", Func: key, Goal: TrueT, Solver: "effect-checker", Status: "discharged",
					Note: "direct write of " + g.String() + " in " + key}
				okWriter := strings.HasSuffix(key, ".Keeper.SetParams") || strings.Contains(key, "/migrations/")
				if !okWriter {
					o.Status, o.Goal = "failed", FalseT
					o.Output = "the parameters key is written outside Keeper.SetParams / a store migration: " + key + " at " + fn.Prog.Fset.Position(in.Pos()).String()
				}
				rep.Obligations = append(rep.Obligations, o)
			}
		}
	}
	for _, k := range keys {
		fn := p.Funcs[k]
		if seen[fn] || fn.Pkg == nil || !inEffectScope(fn.Pkg.Pkg.Path()) {
			continue
		}
		seen[fn] = true
		visit(fn, fn)
	}
	// vacuity: the three SetParams functions must have been seen writing the key
	if n < 3 {
		rep.Obligations = append(rep.Obligations, &Obligation{Name: "params-writers/found", Kind: "effect", Goal: FalseT, Status: "failed", Solver: "effect-checker",
			Output: fmt.Sprintf("expected at least 3 direct writers of ParamsKey (the SetParams functions), found %d", n)})
	}
	return rep
}

// cmdEntryPoints prints contract stubs (no-panic sweep, C20) for every message handler, gRPC query and
// ValidateBasic of the custom modules that has no contract yet; functions that already have one are
// listed so that `prop C20` can be added to them.
func cmdEntryPoints(p *Program) {
	var keys []string
	for k := range p.Funcs {
		keys = append(keys, k)
	}
	sort.Strings(keys)
	seen := map[*ssa.Function]bool{}
	byPkg := map[string][]string{}
	for _, k := range keys {
		fn := p.Funcs[k]
		if seen[fn] || fn.Pkg == nil || !inEffectScope(fn.Pkg.Pkg.Path()) || fn.Synthetic != "" || len(fn.Blocks) == 0 {
			continue
		}
		seen[fn] = true
		file := fn.Prog.Fset.Position(fn.Pos()).Filename
		if strings.HasSuffix(file, ".pb.go") || strings.HasSuffix(file, ".pb.gw.go") {
			continue
		}
		isVB := fn.Name() == "ValidateBasic" && fn.Signature.Recv() != nil
		isHandler := false
		if fn.Signature.Recv() != nil {
			rt := fn.Signature.Recv().Type()
			if pt, ok := rt.(*types.Pointer); ok {
				rt = pt.Elem()
			}
			if n, ok := types.Unalias(rt).(*types.Named); ok && n.Obj().Name() == "msgServer" {
				sig := fn.Signature
				isHandler = sig.Params().Len() == 2 && strings.HasSuffix(typeString(sig.Params().At(0).Type()), "context.Context")
			}
		}
		if !(isVB || isHandler || isQuery(fn)) {
			continue
		}
		key := contractKeyOf(fn)
		pkg := fn.Pkg.Pkg.Path()
		if fc := p.Specs.Contracts[key]; fc != nil {
			byPkg[pkg] = append(byPkg[pkg], "// HAS CONTRACT: "+strings.TrimPrefix(key, pkg+".")+" props="+strings.Join(fc.Props, ","))
			continue
		}
		recvName := fn.Params[0].Name()
		recvT := strings.TrimPrefix(key, pkg+".")
		recvT = recvT[:strings.LastIndex(recvT, ".")]
		var ps []string
		for _, prm := range fn.Params[1:] {
			ps = append(ps, prm.Name())
		}
		var rs []string
		for i := 0; i < fn.Signature.Results().Len(); i++ {
			rs = append(rs, fmt.Sprintf("r%d", i))
		}
		stub := fmt.Sprintf("//@ func (%s %s) %s(%s) (%s)\n", recvName, recvT, fn.Name(), strings.Join(ps, ", "), strings.Join(rs, ", "))
		if isHandler {
			stub += fmt.Sprintf("//@   requires %s != nil\n", ps[1])
		}
		stub += "//@   prop C20"
		byPkg[pkg] = append(byPkg[pkg], stub)
	}
	var pkgs []string
	for k := range byPkg {
		pkgs = append(pkgs, k)
	}
	sort.Strings(pkgs)
	for _, k := range pkgs {
		fmt.Println("## " + k)
		for _, l := range byPkg[k] {
			fmt.Println(l)
		}
	}
}


// runArgOrderCheck: the `argorder` declarations of a property. In the named function, the call of the named method is found
// (SSA), its string-constant arguments are read in order (a variadic call: stores into the argument array), and every
// adjacent pair of declared names must appear in that relative order. One obligation per pair; a missing call or a missing
// name fails its obligations.
func runArgOrderCheck(p *Program, id string) *FuncReport {
	rep := &FuncReport{Key: "wiring:" + id}
	for _, d := range p.Specs.ArgOrders {
		if !propListed(d.Prop, id) {
			continue
		}
		if d.Calls {
			rep.Obligations = append(rep.Obligations, callOrderObligations(p, d)...)
			continue
		}
		fn := p.Funcs[d.Func]
		var names []string
		found := false
		if fn != nil {
			for _, b := range fn.Blocks {
				for _, in := range b.Instrs {
					call, ok := in.(ssa.CallInstruction)
					if !ok {
						continue
					}
					c := call.Common()
					callee := ""
					if c.IsInvoke() {
						callee = c.Method.Name()
					} else if f := c.StaticCallee(); f != nil {
						callee = f.Name()
					}
					if callee != d.Method || found {
						continue
					}
					found = true
					for _, a := range c.Args {
						names = append(names, stringConstsOf(a)...)
					}
				}
			}
		}
		pos := map[string]int{}
		for i, n := range names {
			if _, dup := pos[n]; !dup {
				pos[n] = i
			}
		}
		for i := 0; i+1 < len(d.Names); i++ {
			a, b := d.Names[i], d.Names[i+1]
			o := &Obligation{Name: fmt.Sprintf("%s/wiring@%s:%s<%s", d.Func, d.Method, a, b), Kind: "effect", Func: d.Func, Goal: TrueT, Solver: "wiring-checker",
				Status: "discharged", Note: fmt.Sprintf("in %s, the call of %s lists %q before %q", d.Func, d.Method, a, b)}
			pa, oka := pos[a]
			pb, okb := pos[b]
			switch {
			case fn == nil || !found:
				o.Status, o.Goal, o.Output = "failed", FalseT, "the call of "+d.Method+" was not found in "+d.Func
			case !oka || !okb:
				o.Status, o.Goal, o.Output = "failed", FalseT, fmt.Sprintf("%q or %q is not among the constant arguments %v", a, b, names)
			case pa >= pb:
				o.Status, o.Goal, o.Output = "failed", FalseT, fmt.Sprintf("%q (position %d) does not come before %q (position %d)", a, pa, b, pb)
			}
			rep.Obligations = append(rep.Obligations, o)
		}
	}
	return rep
}

// stringConstsOf: the string constants stored, in index order, into the array behind a variadic argument slice.
func stringConstsOf(v ssa.Value) []string {
	sl, ok := v.(*ssa.Slice)
	if !ok {
		if c, ok := v.(*ssa.Const); ok && c.Value != nil && c.Value.Kind() == constant.String {
			return []string{constant.StringVal(c.Value)}
		}
		return nil
	}
	al, ok := sl.X.(*ssa.Alloc)
	if !ok || al.Referrers() == nil {
		return nil
	}
	type ent struct {
		idx int64
		s   string
	}
	var es []ent
	for _, r := range *al.Referrers() {
		ia, ok := r.(*ssa.IndexAddr)
		if !ok || ia.Referrers() == nil {
			continue
		}
		ic, ok := ia.Index.(*ssa.Const)
		if !ok {
			continue
		}
		for _, rr := range *ia.Referrers() {
			if st, ok := rr.(*ssa.Store); ok {
				if c, ok := st.Val.(*ssa.Const); ok && c.Value != nil && c.Value.Kind() == constant.String {
					es = append(es, ent{ic.Int64(), constant.StringVal(c.Value)})
				}
			}
		}
	}
	sort.Slice(es, func(i, j int) bool { return es[i].idx < es[j].idx })
	var out []string
	for _, e := range es {
		out = append(out, e.s)
	}
	return out
}

func propListed(list, id string) bool {
	for _, x := range strings.Split(list, ",") {
		if x == id {
			return true
		}
	}
	return false
}

// callOrderObligations: the `callorder` declaration d. In the named function and the function literals inside it, each listed
// callee is called, and every call of a listed callee is dominated (same function, control-flow dominance) by a call of the
// callee listed before it: the later step can never run unless the earlier one has run in the same invocation.
func callOrderObligations(p *Program, d ArgOrderDecl) []*Obligation {
	type site struct {
		fn  *ssa.Function
		blk *ssa.BasicBlock
		idx int
	}
	sites := map[string][]site{}
	var walk func(fn *ssa.Function)
	walk = func(fn *ssa.Function) {
		for _, b := range fn.Blocks {
			for i, in := range b.Instrs {
				call, ok := in.(ssa.CallInstruction)
				if !ok {
					continue
				}
				c := call.Common()
				callee := ""
				if c.IsInvoke() {
					callee = c.Method.Name()
				} else if f := c.StaticCallee(); f != nil {
					callee = f.Name()
				}
				if callee != "" {
					sites[callee] = append(sites[callee], site{fn, b, i})
				}
			}
		}
		for _, a := range fn.AnonFuncs {
			walk(a)
		}
	}
	top := p.Funcs[d.Func]
	if top != nil {
		walk(top)
	}
	var out []*Obligation
	for i := 0; i+1 < len(d.Names); i++ {
		a, b := d.Names[i], d.Names[i+1]
		o := &Obligation{Name: fmt.Sprintf("%s/wiring@callorder:%s<%s", d.Func, a, b), Kind: "effect", Func: d.Func, Goal: TrueT, Solver: "wiring-checker",
			Status: "discharged", Note: fmt.Sprintf("in %s (function literals included), every call of %s is dominated by a call of %s", d.Func, b, a)}
		switch {
		case top == nil:
			o.Status, o.Goal, o.Output = "failed", FalseT, "function "+d.Func+" was not found"
		case len(sites[a]) == 0 || len(sites[b]) == 0:
			o.Status, o.Goal, o.Output = "failed", FalseT, fmt.Sprintf("%s or %s is not called in %s", a, b, d.Func)
		default:
			for _, sb := range sites[b] {
				dom := false
				for _, sa := range sites[a] {
					if sa.fn != sb.fn {
						continue
					}
					if (sa.blk == sb.blk && sa.idx < sb.idx) || (sa.blk != sb.blk && sa.blk.Dominates(sb.blk)) {
						dom = true
					}
				}
				if !dom {
					o.Status, o.Goal = "failed", FalseT
					o.Output = fmt.Sprintf("a call of %s at %s is not preceded on every path by a call of %s", b, p.Prog.Fset.Position(sb.blk.Instrs[sb.idx].Pos()), a)
					break
				}
			}
		}
		out = append(out, o)
	}
	return out
}
