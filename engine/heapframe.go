package main

import (
	"fmt"
	"strings"

	"golang.org/x/tools/go/ssa"
)

// Heap frame ("modifies") checking, at the write site.
//
// Every write the function under verification performs through a pointer, into a slice element or into a map — in its own
// body, in an inlined callee, or on its behalf by a callee with a contract (that callee's modifies clause) — must go either to
// an object allocated during this call (reference >= ref:base, the allocation counter at entry) or to a location the
// function's own `modifies` clause names. Callers havoc exactly the modifies clause at a call, so this is what makes
// "everything else on the heap is unchanged" at call sites a proved fact instead of an assumed one.
//
// Granularity: an object field path (modifies p, *p, p.F), a whole backing array (modifies elems(s)), a whole map
// (modifies elems(m)), every object of a type (modifies heap("T")). Writes by library models (decoders filling a
// destination, havoc of out-parameters of unmodelled calls) are over-approximations made by the engine, not writes of the
// code, and are not checked here.

type frameAllow struct {
	key string // heap-key prefix: "<type>#<field path>", "[]<type>#", "map:<type>#"
	all bool   // every object of the type
	ref *Term  // the object / backing array / map reference
}

// modifiesLocs evaluates the heap part of a modifies clause in env (ghost targets are handled by frameObligations).
func (x *Exec) modifiesLocs(env *SpecEnv, fc *FuncContract) []frameAllow {
	var out []frameAllow
	ptrLoc := func(v *Val, extra string) {
		if v == nil || v.K != VPtr || v.Ptr == nil {
			return
		}
		pi := v.Ptr
		switch pi.Base {
		case PObj:
			prefix, _ := pathPrefix(pi.Root, pi.Path)
			out = append(out, frameAllow{key: heapTypeKey(pi.Root) + "#" + prefix + extra, ref: v.T})
		case PElem:
			prefix, _ := pathPrefix(pi.Root, pi.Path)
			out = append(out, frameAllow{key: "[]" + heapTypeKey(pi.Root) + "#" + prefix + extra, ref: pi.Arr})
		}
	}
	for _, m := range fc.Modifies {
		switch n := m.(type) {
		case SIdent:
			if strings.HasPrefix(n.Name, "$") {
				continue
			}
			ptrLoc(env.eval(n), "")
		case SUnary:
			if n.Op == "*" {
				ptrLoc(env.eval(n.X), "")
			}
		case SSelect:
			base := env.eval(n.X)
			if base.K == VPtr && base.Ptr != nil {
				_, t := pathPrefix(base.Ptr.Root, base.Ptr.Path)
				if i, ok := fieldIndex(t, n.Field); ok {
					ptrLoc(base, fmt.Sprintf(".%d", i))
				}
			}
		case SCall:
			id, _ := n.Fun.(SIdent)
			switch id.Name {
			case "elems":
				s := env.eval(n.Args[0])
				switch s.K {
				case VSlice:
					out = append(out, frameAllow{key: "[]" + heapTypeKey(sliceElem(s.Typ)) + "#", ref: s.T})
				case VMap:
					out = append(out, frameAllow{key: "map:" + heapTypeKey(s.Typ) + "#", ref: s.T})
				}
			case "heap":
				if s, ok := n.Args[0].(SStrLit); ok {
					t := x.P.resolveType(env.pkg, s.S)
					out = append(out, frameAllow{key: heapTypeKey(t) + "#", all: true})
				}
			}
		}
	}
	return out
}

// keyCovers: the allowed key prefix covers the written one (component-wise: ".1" does not cover ".10").
func keyCovers(allow, written string) bool {
	if !strings.HasPrefix(written, allow) {
		return false
	}
	rest := written[len(allow):]
	return rest == "" || rest[0] == '.' || strings.HasSuffix(allow, "#")
}

// freshBySyntax: the reference is the allocation counter of this call plus an offset (ref:base + k, ref:next!n + k).
func freshBySyntax(t *Term) bool {
	switch t.K {
	case TConst:
		return t.Op == "ref:base" || strings.HasPrefix(t.Op, "ref:next")
	case TApp:
		if t.Op == "+" {
			for _, a := range t.Args {
				if a.K == TNum {
					if a.Num.Sign() < 0 {
						return false
					}
					continue
				}
				if !freshBySyntax(a) {
					return false
				}
			}
			return len(t.Args) > 0
		}
	}
	return false
}

// checkHeapWrite emits the frame obligation for one write to heap key `key` of the object / array / map `ref`.
func (x *Exec) checkHeapWrite(fr *Frame, st *State, in ssa.Instruction, key string, ref *Term, what string) {
	if x.fc == nil || x.top == nil || x.noFrame || ref == nil {
		return
	}
	if freshBySyntax(ref) {
		return
	}
	// (a nil slice or map has no elements to write; writing through a nil pointer is the no-panic check's matter)
	alts := []*Term{Ge(ref, Const("ref:base", SInt)), Eq(ref, Num(0))}
	for _, a := range x.frameAllows {
		if !keyCovers(a.key, key) {
			continue
		}
		if a.all {
			return
		}
		alts = append(alts, Eq(ref, a.ref))
	}
	label := what
	if in != nil && fr != nil {
		label = x.siteLabel(fr, in, instrWhat(in)) + ":" + what
	}
	x.emit("frame", "heap-write@"+label, st, Or(alts...),
		"write to "+key+": the written object is allocated by this call or named in the modifies clause")
}

// checkCalleeModifies: what a callee with a contract may write (its modifies clause, evaluated at the call) must be
// fresh or within the caller's own modifies clause.
func (x *Exec) checkCalleeModifies(fr *Frame, st *State, in ssa.Instruction, env *SpecEnv, fc *FuncContract) {
	if x.fc == nil || x.top == nil || x.noFrame {
		return
	}
	for i, loc := range x.modifiesLocs(env, fc) {
		if loc.all {
			ok := false
			for _, a := range x.frameAllows {
				if a.all && keyCovers(a.key, loc.key) {
					ok = true
				}
			}
			if !ok {
				x.emit("frame", fmt.Sprintf("heap-write@%s:callee-modifies#%d", x.siteLabel(fr, in, instrWhat(in)), i+1), st, FalseT,
					"callee "+fc.Key()+" modifies every object of "+loc.key+"; the caller's modifies clause must say so too")
			}
			continue
		}
		x.checkHeapWrite(fr, st, in, loc.key, loc.ref, fmt.Sprintf("callee-modifies#%d", i+1))
	}
}
