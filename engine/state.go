package main

// Symbolic state: path condition, heap (one SMT array per type leaf), local
// cells, ghost variables.

import (
	"fmt"
	"go/types"
	"sort"
	"strings"
)

type State struct {
	PC        []*Term
	Heap      map[string]*Term // "<type>#<leaf>" -> (Array Int S); "[]<type>#<leaf>" -> (Array Int (Array Int S))
	HeapTypes map[string]heapKeyInfo
	Cells     map[int]*Val
	CellTypes map[int]types.Type
	Ghost     map[string]*Val
	NextRef   *Term // refs >= NextRef are unallocated
	Dead      bool
	Trace     []string // branch decisions, for diagnostics
	Depth     int
}

type heapKeyInfo struct {
	Typ   types.Type
	Leaf  Leaf
	Slice bool
}

func (s *State) Clone() *State {
	n := &State{
		PC:        append([]*Term(nil), s.PC...),
		Heap:      make(map[string]*Term, len(s.Heap)),
		HeapTypes: s.HeapTypes, // shared, append-only registry
		Cells:     make(map[int]*Val, len(s.Cells)),
		CellTypes: s.CellTypes,
		Ghost:     make(map[string]*Val, len(s.Ghost)),
		NextRef:   s.NextRef,
		Trace:     append([]string(nil), s.Trace...),
		Depth:     s.Depth,
	}
	for k, v := range s.Heap {
		n.Heap[k] = v
	}
	for k, v := range s.Cells {
		n.Cells[k] = v
	}
	for k, v := range s.Ghost {
		n.Ghost[k] = v
	}
	return n
}

func (s *State) Assume(t *Term) {
	if t.IsTrue() {
		return
	}
	if t.K == TApp && t.Op == "and" {
		for _, a := range t.Args {
			s.Assume(a)
		}
		return
	}
	s.PC = append(s.PC, t)
}

func heapTypeKey(t types.Type) string { return typeString(types.Unalias(t)) }

// heapArr returns the current array for (type, leaf), creating the initial
// symbolic array on first use.
func (s *State) heapArr(t types.Type, l Leaf, slice bool) (string, *Term) {
	key := heapTypeKey(t) + "#" + l.Path
	sortS := SArr(SInt, l.Sort)
	if slice {
		key = "[]" + key
		sortS = SArr(SInt, SArr(SInt, l.Sort))
	}
	if a, ok := s.Heap[key]; ok {
		return key, a
	}
	a := Const("H0:"+key, sortS)
	s.Heap[key] = a
	s.HeapTypes[key] = heapKeyInfo{t, l, slice}
	if l.Ref {
		// well-formed initial heap: every stored reference points to an object that already exists
		base := Const("ref:base", SInt)
		r := Bound("r", SInt)
		if slice {
			j := Bound("j", SInt)
			e := Select(Select(a, r), j)
			s.PC = append(s.PC, Forall([]*Term{r, j}, Implies(Lt(r, base), And(Ge(e, Num(0)), Lt(e, base))), []*Term{e}))
		} else {
			e := Select(a, r)
			s.PC = append(s.PC, Forall([]*Term{r}, Implies(Lt(r, base), And(Ge(e, Num(0)), Lt(e, base))), []*Term{e}))
		}
	}
	return key, a
}

// name a heap version so later terms stay small
func (s *State) setHeap(key string, arr *Term) {
	if arr.K == TConst {
		s.Heap[key] = arr
		return
	}
	c := Const(freshName("dH:"+key), arr.Sort)
	heapDefs[c.Op] = arr
	s.PC = append(s.PC, Eq(c, arr))
	s.Heap[key] = c
}

// loadObj reads a value of type t stored at heap object ref (type root), sub-path prefix.
func (s *State) loadObj(root types.Type, ref *Term, prefix string, t types.Type) *Val {
	var ls []*Term
	for _, l := range flatten(t) {
		_, arr := s.heapArr(root, Leaf{prefix + l.Path, l.Sort, l.Ref}, false)
		ls = append(ls, Select(arr, ref))
	}
	return mkVal(t, &ls)
}

func (s *State) storeObj(root types.Type, ref *Term, prefix string, v *Val) error {
	fl := flatten(v.Typ)
	ls := v.leaves()
	if len(fl) != len(ls) {
		return fmt.Errorf("store: leaf mismatch for %s", typeString(v.Typ))
	}
	for i, l := range fl {
		if ls[i] == nil {
			return fmt.Errorf("store of an interior/local pointer into the heap is not modelled")
		}
		key, arr := s.heapArr(root, Leaf{prefix + l.Path, l.Sort, l.Ref}, false)
		s.setHeap(key, Store(arr, ref, ls[i]))
	}
	return nil
}

func (s *State) loadElem(elem types.Type, arr, idx *Term, prefix string, t types.Type) *Val {
	var ls []*Term
	for _, l := range flatten(t) {
		_, h := s.heapArr(elem, Leaf{prefix + l.Path, l.Sort, l.Ref}, true)
		ls = append(ls, Select(Select(h, arr), idx))
	}
	return mkVal(t, &ls)
}

func (s *State) storeElem(elem types.Type, arr, idx *Term, prefix string, v *Val) error {
	fl := flatten(v.Typ)
	ls := v.leaves()
	for i, l := range fl {
		if ls[i] == nil {
			return fmt.Errorf("store of an interior/local pointer into a slice is not modelled")
		}
		key, h := s.heapArr(elem, Leaf{prefix + l.Path, l.Sort, l.Ref}, true)
		s.setHeap(key, Store(h, arr, Store(Select(h, arr), idx, ls[i])))
	}
	return nil
}

// alloc returns a fresh reference, distinct from every reference that existed before.
func (s *State) alloc() *Term {
	r := s.NextRef
	s.NextRef = Add(s.NextRef, Num(1))
	return r
}

// pathPrefix converts a field index path into the leaf path prefix and the type reached.
func pathPrefix(root types.Type, path []int) (string, types.Type) {
	t := root
	var sb strings.Builder
	for _, i := range path {
		st, ok := types.Unalias(t).Underlying().(*types.Struct)
		if !ok {
			panic(fmt.Sprintf("pathPrefix: %s is not a struct", typeString(t)))
		}
		fmt.Fprintf(&sb, ".%d", i)
		t = st.Field(i).Type()
	}
	return sb.String(), t
}

// subVal navigates a struct value along a field path.
func subVal(v *Val, path []int) *Val {
	for _, i := range path {
		if v.K != VStruct {
			panic("subVal on non-struct")
		}
		v = v.Fields[i]
	}
	return v
}

// withSub returns a copy of v with the sub-value at path replaced.
func withSub(v *Val, path []int, nv *Val) *Val {
	if len(path) == 0 {
		return nv
	}
	c := *v
	c.Fields = append([]*Val(nil), v.Fields...)
	c.Fields[path[0]] = withSub(v.Fields[path[0]], path[1:], nv)
	return &c
}

func (s *State) heapKeysSorted() []string {
	var ks []string
	for k := range s.Heap {
		ks = append(ks, k)
	}
	sort.Strings(ks)
	return ks
}

// assumeHeapWF: allocation discipline, true of every reachable Go heap: a reference stored in an
// allocated object refers to an allocated object. Assumed after havocs (loop headers, contract calls),
// where the concrete store history that implies it has been abstracted away.
func (s *State) assumeHeapWF() {
	for _, key := range s.heapKeysSorted() {
		info, ok := s.HeapTypes[key]
		if !ok || !info.Leaf.Ref {
			continue
		}
		a := s.Heap[key]
		r := Bound("r", SInt)
		if info.Slice {
			j := Bound("j", SInt)
			e := Select(Select(a, r), j)
			s.PC = append(s.PC, Forall([]*Term{r, j}, Implies(Lt(r, s.NextRef), And(Ge(e, Num(0)), Lt(e, s.NextRef))), []*Term{e}))
		} else {
			e := Select(a, r)
			s.PC = append(s.PC, Forall([]*Term{r}, Implies(Lt(r, s.NextRef), And(Ge(e, Num(0)), Lt(e, s.NextRef))), []*Term{e}))
		}
	}
}
