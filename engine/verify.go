package main

// Verification of one function against its contract, and of lemmas.

import (
	"fmt"
	"go/types"
	"sort"
	"strings"

)

type FuncReport struct {
	Key          string
	Trusted      bool
	Obligations  []*Obligation
	Abstractions []string
	LibUsed      []string
	Inlined      []string
	TrustedUsed  []string
	ContractsUsed []string
	LemmasUsed   []string
	Paths        int
	Error        string
	ExecS        float64
}

func sortedKeys(m map[string]bool) []string {
	var ks []string
	for k := range m {
		ks = append(ks, k)
	}
	sort.Strings(ks)
	return ks
}

// initState builds the symbolic entry state.
func (x *Exec) initState() *State {
	st := &State{Heap: map[string]*Term{}, HeapTypes: map[string]heapKeyInfo{}, Cells: map[int]*Val{}, CellTypes: map[int]types.Type{},
		Ghost: map[string]*Val{}, NextRef: Const("ref:base", SInt)}
	st.Assume(Gt(st.NextRef, Num(0)))
	// facts of the application wiring: module accounts and their permissions (app/app.go maccPerms)
	if mp, err := x.P.MaccPerms(); err == nil {
		var mods []string
		for m := range mp {
			mods = append(mods, m)
		}
		sort.Strings(mods)
		for _, m := range mods {
			mt := strLit(m)
			st.Assume(UF("moduleExists", []string{SStr}, SBool, mt))
			has := map[string]bool{}
			for _, pm := range mp[m] {
				has[pm] = true
			}
			for _, pm := range []string{"minter", "burner", "staking"} {
				f := UF("hasPerm", []string{SStr, SStr}, SBool, mt, strLit(pm))
				if has[pm] {
					st.Assume(f)
				} else {
					st.Assume(Not(f))
				}
			}
		}
		x.note(fmt.Sprintf("module accounts and permissions read from app/app.go maccPerms (%d entries)", len(mods)))
	} else {
		x.note("maccPerms could not be read: " + err.Error())
	}
	var names []string
	for n := range x.P.Specs.Ghosts {
		names = append(names, n)
	}
	sort.Strings(names)
	for _, n := range names {
		g := x.P.Specs.Ghosts[n]
		var v *Val
		if strings.HasPrefix(g.Type, "go:") {
			t := x.P.resolveType(g.Pkg, strings.TrimPrefix(g.Type, "go:"))
			v = freshVal(t, "ghost:"+n, false)
			for _, wf := range wellFormed(v) {
				st.Assume(wf)
			}
			x.assumeAllocated(st, v)
		} else {
			v = valOfSort(Const("ghost:"+n, specSort(g.Type)))
		}
		st.Ghost[n] = v
	}
	return st
}

// VerifyFunc symbolically executes fn against contract fc and returns the obligations.
func VerifyFunc(p *Program, fc *FuncContract, opts VerifyOpts) (rep *FuncReport) {
	rep = &FuncReport{Key: fc.Key(), Trusted: fc.Trusted}
	fn := p.Funcs[fc.Key()]
	if fn == nil {
		rep.Obligations = append(rep.Obligations, &Obligation{Name: fc.Key() + "/target-exists", Kind: "target-exists", Func: fc.Key(),
			Goal: FalseT, Status: "failed", Output: "contract target function not found in /repo"})
		return rep
	}
	// a trusted contract is assumed, not verified; but when it is placed under a no-panic property its body is still executed
	// in panic mode and every no-panic obligation (and callee precondition) is generated - only the functional
	// postconditions and the frame stay assumed
	panicOnly := false
	if fc.Trusted {
		if opts.PanicMode {
			for _, pp := range opts.PanicProps {
				if hasProp(fc.Props, pp) {
					panicOnly = true
				}
			}
		}
		if !panicOnly {
			return rep
		}
	}
	// fresh names are numbered per verification unit: the text of a unit's obligations (and with it the solvers' behaviour)
	// does not depend on which other units are verified in the same run
	freshCounter = 0
	heapDefs = map[string]*Term{}
	x := NewExec(p)
	x.top, x.topKey, x.fc = fn, fc.Key(), fc
	x.fuel = fc.Fuel
	for _, e := range fc.Exempt {
		if e == "C09" {
			x.noC09 = true
			x.note("C09's SetAccount obligation waived for this function: governance-approved upgrade (declared by `exempt C09`)")
		}
	}
	x.noPanic = (fc.NoPanic || opts.PanicMode) && !opts.NoPanicOff
	x.panicMode = opts.PanicMode
	x.panicProps = opts.PanicProps
	x.overflow = !opts.OverflowOff
	x.revealed = map[string]bool{}
	for _, r := range fc.Reveal {
		x.revealed[r] = true
		delete(x.opaque, r)
	}
	for _, o := range fc.Opaque {
		x.opaque[o] = true
	}
	defer func() {
		if r := recover(); r != nil {
			if e, ok := r.(error); ok && strings.HasPrefix(e.Error(), "contract error") {
				rep.Error = e.Error()
			} else if se, ok := r.(specError); ok {
				rep.Error = "contract error in " + fc.Key() + ": " + se.msg
			} else {
				panic(r)
			}
			rep.Obligations = append(x.obs, &Obligation{Name: fc.Key() + "/contract-wellformed", Kind: "contract", Func: fc.Key(), Goal: FalseT,
				Status: "error", Output: rep.Error})
		}
	}()
	st := x.initState()
	var args []*Val
	for _, prm := range fn.Params {
		v := freshVal(prm.Type(), "in:"+prm.Name(), false)
		for _, wf := range wellFormed(v) {
			st.Assume(wf)
		}
		x.assumeAllocated(st, v)
		args = append(args, v)
		for i, l := range v.leaves() {
			if l != nil && l.K == TConst {
				x.watch = append(x.watch, Watch{Name: "in:" + prm.Name() + flatten(prm.Type())[i].Path, T: l})
			}
		}
		// what hangs below a pointer or a list argument (pointee fields, the first list elements) is part of a counterexample too
		if autoReplayable(fn) {
			x.addInputWatches(st, "in:"+prm.Name(), prm.Type(), v, 0)
		}
	}
	env := contractEnv(x, fc, fn, args, st)
	for _, r := range fc.Requires {
		st.Assume(x.safeEvalBool(env, r.E, fc.Key()+" requires"))
	}
	if x.panicMode {
		for _, r := range fc.PanicRequires {
			st.Assume(x.safeEvalBool(env, r.E, fc.Key()+" panic_requires"))
		}
	}
	if fc.Decr != nil {
		x.topDecr0 = toInt(env.eval(fc.Decr))
	}
	for _, u := range fc.Uses {
		if id, ok := u.(SIdent); ok {
			if lm := p.Specs.Lemmas[id.Name]; lm != nil {
				st.Assume(x.lemmaAxiom(lm))
				continue
			}
		}
		st.Assume(x.safeEvalBool(env, u, fc.Key()+" uses"))
	}
	x.pre = st.Clone()
	x.frameAllows = x.modifiesLocs(env, fc)
	// watch the ghost pre-state too
	gn := sortedKeys(func() map[string]bool {
		m := map[string]bool{}
		for n := range st.Ghost {
			m[n] = true
		}
		return m
	}())
	for _, n := range gn {
		g := st.Ghost[n]
		for _, l := range g.leaves() {
			if l != nil && l.K == TConst && (l.Sort == SInt || l.Sort == SBool) {
				x.watch = append(x.watch, Watch{Name: l.Op, T: l})
			}
		}
	}
	// vacuity: the precondition must be satisfiable
	cover := x.emit("cover", "requires", st, TrueT, "precondition satisfiable")
	cover.Expect = "sat"
	var exitPCs [][]*Term
	reachSeen, reachMembers := map[string]bool{}, map[string]int{}
	x.runFunction(fn, args, st, 0, "", nil, func(st2 *State, res []*Val) {
		if len(exitPCs) < 8 {
			exitPCs = append(exitPCs, append([]*Term(nil), st2.PC...))
		}
		post := contractEnv(x, fc, fn, args, st2)
		post.old = x.pre
		if len(fc.Results) > 0 {
			if len(fc.Results) != len(res) {
				sfail("contract %s lists %d results, function has %d", fc.Key(), len(fc.Results), len(res))
			}
			for i, n := range fc.Results {
				if n != "_" {
					post.vars[n] = res[i]
				}
			}
		}
		// acceptance witnesses: one member per return path on which the clause's names are in scope; the group holds if any
		// member is satisfiable
		for ri, rc := range fc.Reach {
			lbl := fmt.Sprintf("reach#%d", ri+1)
			if rc.Tag != "" {
				lbl = "reach:" + rc.Tag
			}
			renv := *post
			fr0, blk0 := x.retFr, x.retBlk
			if fr0 != nil && blk0 != nil {
				renv.resolve = func(name string) *Val { return x.resolveLocal(fr0, st2, blk0, name) }
			}
			var g *Term
			func() {
				defer func() {
					if r := recover(); r != nil {
						if _, ok := r.(specError); !ok {
							panic(r)
						}
						g = nil // a name of the clause is not in scope at this return: not a member
					}
				}()
				g = renv.evalBool(rc.E)
			}()
			reachSeen[lbl] = true
			if g == nil {
				continue
			}
			o := x.emit("cover", lbl, st2, TrueT, "acceptance witness: "+rc.Text)
			o.Hyps = append(o.Hyps, g)
			o.Expect = "sat"
			o.Group = x.topKey + "/" + lbl
			reachMembers[lbl]++
		}
		var hints []*Term
		for _, u := range fc.UsesPost {
			if id, ok := u.(SIdent); ok {
				if lm := p.Specs.Lemmas[id.Name]; lm != nil {
					hints = append(hints, x.lemmaAxiom(lm))
					continue
				}
			}
			hints = append(hints, x.safeEvalBool(post, u, fc.Key()+" uses_post"))
		}
		for i, e := range fc.Ensures {
			g := x.safeEvalBool(post, e.E, fc.Key()+" ensures")
			lbl := fmt.Sprintf("ensures#%d", i+1)
			if e.Tag != "" {
				lbl = "ensures:" + e.Tag // labelled clauses keep their obligation name when clauses are added or reordered
			}
			o := x.emit("post", lbl, st2, g, e.Text)
			o.Hyps = append(o.Hyps, hints...)
			x.applyKnownRegions(o, post)
		}
		if !(x.panicMode && len(fc.Ensures) == 0 && len(fc.Modifies) == 0) {
			// (a pure no-panic stub makes no claim about what the function changes)
			x.frameObligations(st2, post, fc)
		}
	})
	// vacuity: some return of the function must be reachable in the model (a contradictory callee contract, library
	// assumption or loop invariant would make every path infeasible and every obligation trivially true)
	if x.aborted == "" {
		if len(exitPCs) == 0 {
			x.obs = append(x.obs, &Obligation{Name: x.topKey + "/cover@exit", Kind: "cover", Func: x.topKey, Goal: FalseT, Axioms: x.axioms, Opaque: x.opaque,
				Note: "a return of the function is reachable (no return path was found)", SpecDefs: x.specDefs, Expect: "sat"})
		}
		for i, pc := range exitPCs {
			// one member per return path explored (up to 8); the group holds if any member is satisfiable
			x.obs = append(x.obs, &Obligation{Name: fmt.Sprintf("%s/cover@exit#%d", x.topKey, i+1), Kind: "cover", Func: x.topKey, Hyps: pc, Goal: TrueT, Axioms: x.axioms,
				Opaque: x.opaque, Note: "a return of the function is reachable", SpecDefs: x.specDefs, Expect: "sat", Group: x.topKey + "/cover@exit"})
		}
	}
	for ri, rc := range fc.Reach {
		lbl := fmt.Sprintf("reach#%d", ri+1)
		if rc.Tag != "" {
			lbl = "reach:" + rc.Tag
		}
		if reachMembers[lbl] == 0 && x.aborted == "" {
			x.obs = append(x.obs, &Obligation{Name: x.topKey + "/cover@" + lbl, Kind: "cover", Func: x.topKey, Goal: FalseT, Axioms: x.axioms, Opaque: x.opaque,
				Note: "acceptance witness: " + rc.Text + " (no return path has the clause's names in scope)", SpecDefs: x.specDefs, Expect: "sat"})
		}
	}
	if x.aborted != "" {
		x.obs = append(x.obs, &Obligation{Name: fc.Key() + "/explored", Kind: "tool-limit", Func: fc.Key(), Goal: FalseT, Status: "error", Output: x.aborted})
	}
	// the axioms list grows while executing; give every obligation the final list
	for _, o := range x.obs {
		o.Axioms = x.axioms
		o.SpecDefs = x.specDefs
	}
	if panicOnly {
		var kept []*Obligation
		for _, o := range x.obs {
			if o.Kind != "post" && o.Kind != "frame" {
				kept = append(kept, o)
			}
		}
		x.obs = kept
		x.note("functional contract of " + fc.Key() + " is trusted (assumed); its body is checked for panics only")
	}
	rep.Obligations = x.obs
	rep.Abstractions = sortedKeys(x.abstr)
	rep.LibUsed = sortedKeys(x.libUsed)
	rep.Inlined = sortedKeys(x.inlined)
	rep.TrustedUsed = sortedKeys(x.trusted)
	rep.ContractsUsed = sortedKeys(x.usedCtr)
	rep.LemmasUsed = sortedKeys(x.lemmasUsed)
	rep.Paths = x.paths
	return rep
}

type VerifyOpts struct {
	NoPanicOff  bool
	OverflowOff bool
	PanicMode   bool   // C10/C20: generate no-panic obligations for this function; callees must be panic-checked too
	PanicProps  []string
}

// addInputWatches adds model watches for the values reachable from an input: the fields of a pointee, the first rpMaxList
// elements of a list, recursively (bounded depth). Names follow autoreplay.go: "->" for a pointee, "[k]" for an element.
func (x *Exec) addInputWatches(st *State, name string, t types.Type, v *Val, depth int) {
	if v == nil || depth > 3 {
		return
	}
	watchLeaves := func(nm string, tt types.Type, vv *Val) {
		ls := vv.leaves()
		for i, l := range flatten(tt) {
			if i < len(ls) && ls[i] != nil {
				x.watch = append(x.watch, Watch{Name: nm + l.Path, T: ls[i]})
			}
		}
	}
	switch v.K {
	case VPtr:
		et := ptrElem(t)
		if et == nil || classify(et) == VPtr || classify(et) == VIface || v.Ptr == nil || v.Ptr.Base != PObj {
			return
		}
		pv := st.loadObj(et, v.T, "", et)
		watchLeaves(name+"->", et, pv)
		x.addInputWatches(st, name+"->", et, pv, depth+1)
	case VSlice:
		et := sliceElem(t)
		if et == nil {
			return
		}
		for k := 0; k < rpMaxList; k++ {
			ev := st.loadElem(et, v.T, ElemIdx(v.Off, Num(int64(k))), "", et)
			nm := fmt.Sprintf("%s[%d]", name, k)
			watchLeaves(nm, et, ev)
			x.addInputWatches(st, nm, et, ev, depth+1)
		}
	case VStruct:
		stt, ok := types.Unalias(t).Underlying().(*types.Struct)
		if !ok {
			return
		}
		for i := 0; i < stt.NumFields() && i < len(v.Fields); i++ {
			x.addInputWatches(st, fmt.Sprintf("%s.%d", name, i), stt.Field(i).Type(), v.Fields[i], depth)
		}
	}
}

// frameObligations: ghost variables not named in modifies must be unchanged at exit.
func (x *Exec) frameObligations(st *State, env *SpecEnv, fc *FuncContract) {
	mod := map[string]bool{}
	for _, m := range fc.Modifies {
		if id, ok := m.(SIdent); ok && strings.HasPrefix(id.Name, "$") {
			mod[id.Name[1:]] = true
		}
	}
	var names []string
	for n := range st.Ghost {
		names = append(names, n)
	}
	sort.Strings(names)
	for _, n := range names {
		if mod[n] {
			continue
		}
		a, b := x.pre.Ghost[n], st.Ghost[n]
		la, lb := a.leaves(), b.leaves()
		same := true
		var eqs []*Term
		for i := range la {
			if la[i] != lb[i] {
				same = false
			}
			eqs = append(eqs, Eq(la[i], lb[i]))
		}
		if same {
			continue
		}
		x.emit("frame", "ghost:"+n, st, And(eqs...), "ghost $"+n+" is not in modifies")
	}
}

// ---------- lemmas ----------

func VerifyLemma(p *Program, lm *Lemma) *FuncReport {
	rep := &FuncReport{Key: "lemma:" + lm.Name}
	freshCounter = 0
	heapDefs = map[string]*Term{}
	x := NewExec(p)
	x.topKey = "lemma:" + lm.Name
	x.fuel = lm.Fuel
	x.revealed = map[string]bool{}
	for _, r := range lm.Reveal {
		x.revealed[r] = true
		delete(x.opaque, r)
	}
	for _, o := range lm.Opaque {
		x.opaque[o] = true
	}
	defer func() {
		if r := recover(); r != nil {
			if se, ok := r.(specError); ok {
				rep.Error = "contract error in lemma " + lm.Name + ": " + se.msg
				rep.Obligations = append(rep.Obligations, &Obligation{Name: "lemma:" + lm.Name + "/wellformed", Kind: "contract", Goal: FalseT,
					Status: "error", Output: rep.Error})
				return
			}
			panic(r)
		}
	}()
	st := x.specState()
	env := &SpecEnv{x: x, st: st, vars: map[string]*Val{}, pkg: lm.Pkg}
	for _, prm := range lm.Params {
		c := Const("arg:"+prm.Name, specSort(prm.Type))
		env.vars[prm.Name] = valOfSort(c)
		if c.Sort == SInt || c.Sort == SBool {
			x.watch = append(x.watch, Watch{Name: prm.Name, T: c})
		}
	}
	var req []*Term
	for _, r := range lm.Requires {
		req = append(req, env.evalBool(r))
	}
	hyps := append([]*Term(nil), req...)
	for _, u := range lm.Uses {
		if id, ok := u.(SIdent); ok {
			if l2 := p.Specs.Lemmas[id.Name]; l2 != nil {
				hyps = append(hyps, x.lemmaAxiom(l2))
				continue
			}
		}
		hyps = append(hyps, env.evalBool(u))
	}
	if lm.Induction != "" {
		nv, ok := env.vars[lm.Induction]
		if !ok {
			sfail("lemma %s: induction variable %s is not a parameter", lm.Name, lm.Induction)
		}
		// well-foundedness: requires must bound the induction variable below
		x.obs = append(x.obs, &Obligation{Name: "lemma:" + lm.Name + "/induction-wf", Kind: "lemma", Func: "lemma:" + lm.Name,
			Hyps: req, Goal: Ge(nv.T, Num(0)), Opaque: x.opaque, Watch: x.watch})
		// induction hypothesis: the lemma at n-1, for the same values of the other parameters
		// ("induction n generalizing": for all values of the other parameters)
		ih := &SpecEnv{x: x, st: st, vars: map[string]*Val{}, pkg: lm.Pkg}
		var vars []*Term
		for _, prm := range lm.Params {
			if prm.Name == lm.Induction {
				ih.vars[prm.Name] = &Val{K: VInt, T: Sub(nv.T, Num(1))}
				continue
			}
			if !lm.Generalize {
				ih.vars[prm.Name] = env.vars[prm.Name]
				continue
			}
			b := Bound("ih_"+prm.Name, specSort(prm.Type))
			vars = append(vars, b)
			ih.vars[prm.Name] = valOfSort(b)
		}
		var r2, e2 []*Term
		for _, r := range lm.Requires {
			r2 = append(r2, ih.evalBool(r))
		}
		for _, e := range lm.Ensures {
			e2 = append(e2, ih.evalBool(e))
		}
		hyps = append(hyps, Forall(vars, Implies(And(r2...), And(e2...))))
	}
	for i, e := range lm.Ensures {
		g := env.evalBool(e)
		o := &Obligation{Name: fmt.Sprintf("lemma:%s/ensures#%d", lm.Name, i+1), Kind: "lemma", Func: "lemma:" + lm.Name, Hyps: hyps, Goal: g,
			Opaque: x.opaque, Watch: x.watch}
		if lm.Expect == "fail" {
			o.Kind = "canary"
			o.Expect = "refuted"
		}
		x.obs = append(x.obs, o)
	}
	for _, o := range x.obs {
		o.Axioms = x.axioms
		o.SpecDefs = x.specDefs
		o.Hyps = append(append([]*Term(nil), st.PC...), o.Hyps...) // let-definitions
		if o.Fuel == 0 {
			o.Fuel = x.fuel
		}
	}
	rep.Obligations = x.obs
	rep.LemmasUsed = sortedKeys(x.lemmasUsed)
	return rep
}

// applyKnownRegions: a recorded known finding delimits a region R of the inputs in which the
// obligation is known to fail. The obligation is then proved under not-R (so any other violation is
// still reported) and a canary checks that the finding still reproduces inside R.
func (x *Exec) applyKnownRegions(o *Obligation, env *SpecEnv) {
	for _, kf := range knownRegions[o.Name] {
		if kf.Region == "" {
			continue
		}
		e, err := parseExpr(kf.Region)
		if err != nil {
			panic(fmt.Errorf("contract error in known_findings.json region for %s: %v", o.Name, err))
		}
		r := x.safeEvalBool(env, e, "known finding region")
		// canary: the same obligation restricted to the region. While it cannot be discharged the finding is
		// still present (the obligation holds outside the region and not inside); once it discharges, the defect is gone.
		canary := &Obligation{Name: o.Name, Kind: "known-finding-canary", Func: o.Func, Hyps: append(append([]*Term(nil), o.Hyps...), r),
			Goal: o.Goal, Axioms: o.Axioms, Opaque: o.Opaque, Watch: o.Watch, Note: kf.What, SpecDefs: o.SpecDefs}
		x.obs = append(x.obs, canary)
		o.Hyps = append(o.Hyps, Not(r))
	}
}
