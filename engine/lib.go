package main

// Library model: assumed contracts of dependency functions (the trusted base).
// Numbers, time, errors, logging. Sources: cosmossdk.io/math v1.0.0-beta.3,
// cosmos-sdk v0.46.10 types/decimal.go, Go 1.23 time.

import (
	"go/types"
	"strings"
)

var libTable = map[string]LibFn{}

// libGhostWrites lists ghost variables a library function may modify (for loop havoc).
var libGhostWrites = map[string][]string{}
var libWritesPtrArgs = map[string]bool{}

func reg(name string, f LibFn) { libTable[name] = f }

const (
	pMath = "cosmossdk.io/math."
	pSdk  = "github.com/cosmos/cosmos-sdk/types."
	pErrs = "github.com/cosmos/cosmos-sdk/types/errors."
	pLog  = "github.com/tendermint/tendermint/libs/log."
)

var noopPrefixes = []string{
	"(" + pLog + "Logger).",
	"github.com/cosmos/cosmos-sdk/telemetry.",
	"github.com/armon/go-metrics.",
}

// normLib maps the repo's expected-keeper interface methods to keeper:<Iface>.<Method>.
func normLib(name string) string {
	if k := keeperKey(name); k != "" {
		return k
	}
	return name
}

func lookupLib(name string) LibFn {
	name = normLib(name)
	if f, ok := libTable[name]; ok {
		return f
	}
	for _, p := range noopPrefixes {
		if strings.HasPrefix(name, p) {
			return libNoop
		}
	}
	return nil
}

func libNoop(c *LibCtx, args []*Val) *Val {
	res := c.x.freshResultsAssumed(c.st, c.sig)
	// With returns a logger: never nil
	for _, r := range res {
		if r.K == VIface {
			c.st.Assume(Neq(r.Tag, Num(0)))
		}
	}
	return tupleOf(c.sig, res)
}

var (
	two256 = NumStr("115792089237316195423570985008687907853269984665640564039457584007913129639936")
	two315 = NumStr("66749594872528440074844428317798503581334516323645399060845050244444366430645017188217565216768")
)

func (c *LibCtx) panicIf(cond *Term, what string) { c.x.mustNot(c.fr, c.st, c.in, cond, what) }

func (c *LibCtx) nonNil(vs ...*Val) {
	for _, v := range vs {
		if v.K == VBig {
			c.panicIf(v.Nil, "nil-Int/Dec-operand")
		}
	}
}

func (c *LibCtx) intRes(v *Term, typ types.Type) *Val {
	c.panicIf(Ge(AbsI(v), two256), "Int-overflow-256")
	return bigVal(FalseT, v, typ)
}

func (c *LibCtx) decRes(v *Term, typ types.Type) *Val {
	c.panicIf(Ge(AbsI(v), two315), "Dec-overflow-315")
	return bigVal(FalseT, v, typ)
}

func (c *LibCtx) resType(i int) types.Type {
	return c.sig.Results().At(i).Type()
}

func freshErr(c *LibCtx, name string) *Val {
	return freshVal(types.Universe.Lookup("error").Type(), name, true)
}

// errRootTerm: the registered error at the root of a wrapped error value (uninterpreted on (tag, payload)).
func errRootTerm(e *Val) *Term {
	return UF("errRoot", []string{SInt, SInt}, SInt, e.Tag, e.T)
}

// errRootOf: the root of any error value: a registered *errors.Error is its own root (its payload is the pointer).
func errRootOf(e *Val) *Term {
	if errPtrTag != 0 {
		return Ite(Eq(e.Tag, Num(int64(errPtrTag))), e.T, errRootTerm(e))
	}
	return errRootTerm(e)
}

// errPtrTag: the interface tag of *cosmossdk.io/errors.Error (set when the type is first met); errGlobals: the constants that
// stand for registered errors (pairwise distinct objects).
var errPtrTag int
var errGlobals = map[string]bool{}

func nilErr() *Val {
	return &Val{K: VIface, Typ: types.Universe.Lookup("error").Type(), Tag: Num(0), T: Num(0)}
}

func nonNilErr(c *LibCtx) *Val {
	e := freshErr(c, "err")
	c.st.Assume(Gt(e.Tag, Num(0)))
	return e
}

func init() {
	// ---------------- math.Int ----------------
	I := "(" + pMath + "Int)."
	cmpI := func(op string) LibFn {
		return func(c *LibCtx, a []*Val) *Val {
			c.nonNil(a[0], a[1])
			return boolVal(cmp(op, a[0].T, a[1].T))
		}
	}
	reg(I+"IsNil", func(c *LibCtx, a []*Val) *Val { return boolVal(a[0].Nil) })
	reg(I+"IsZero", func(c *LibCtx, a []*Val) *Val { c.nonNil(a[0]); return boolVal(Eq(a[0].T, Num(0))) })
	reg(I+"IsNegative", func(c *LibCtx, a []*Val) *Val { c.nonNil(a[0]); return boolVal(Lt(a[0].T, Num(0))) })
	reg(I+"IsPositive", func(c *LibCtx, a []*Val) *Val { c.nonNil(a[0]); return boolVal(Gt(a[0].T, Num(0))) })
	reg(I+"Equal", func(c *LibCtx, a []*Val) *Val { c.nonNil(a[0], a[1]); return boolVal(Eq(a[0].T, a[1].T)) })
	reg(I+"GT", cmpI(">"))
	reg(I+"GTE", cmpI(">="))
	reg(I+"LT", cmpI("<"))
	reg(I+"LTE", cmpI("<="))
	reg(I+"Add", func(c *LibCtx, a []*Val) *Val { c.nonNil(a[0], a[1]); return c.intRes(Add(a[0].T, a[1].T), c.resType(0)) })
	reg(I+"Sub", func(c *LibCtx, a []*Val) *Val { c.nonNil(a[0], a[1]); return c.intRes(Sub(a[0].T, a[1].T), c.resType(0)) })
	reg(I+"Mul", func(c *LibCtx, a []*Val) *Val { c.nonNil(a[0], a[1]); return c.intRes(Mul(a[0].T, a[1].T), c.resType(0)) })
	reg(I+"AddRaw", func(c *LibCtx, a []*Val) *Val { c.nonNil(a[0]); return c.intRes(Add(a[0].T, a[1].T), c.resType(0)) })
	reg(I+"SubRaw", func(c *LibCtx, a []*Val) *Val { c.nonNil(a[0]); return c.intRes(Sub(a[0].T, a[1].T), c.resType(0)) })
	reg(I+"MulRaw", func(c *LibCtx, a []*Val) *Val { c.nonNil(a[0]); return c.intRes(Mul(a[0].T, a[1].T), c.resType(0)) })
	reg(I+"Quo", func(c *LibCtx, a []*Val) *Val {
		c.nonNil(a[0], a[1])
		c.panicIf(Eq(a[1].T, Num(0)), "Int-division-by-zero")
		return bigVal(FalseT, TQuo(a[0].T, a[1].T), c.resType(0))
	})
	reg(I+"QuoRaw", func(c *LibCtx, a []*Val) *Val {
		c.nonNil(a[0])
		c.panicIf(Eq(a[1].T, Num(0)), "Int-division-by-zero")
		return bigVal(FalseT, TQuo(a[0].T, a[1].T), c.resType(0))
	})
	reg(I+"Neg", func(c *LibCtx, a []*Val) *Val { c.nonNil(a[0]); return bigVal(FalseT, Neg(a[0].T), c.resType(0)) })
	reg(I+"Abs", func(c *LibCtx, a []*Val) *Val { c.nonNil(a[0]); return bigVal(FalseT, AbsI(a[0].T), c.resType(0)) })
	reg(I+"Int64", func(c *LibCtx, a []*Val) *Val {
		c.nonNil(a[0])
		c.panicIf(Or(Lt(a[0].T, NumStr("-9223372036854775808")), Gt(a[0].T, NumStr("9223372036854775807"))), "Int64-out-of-bound")
		return intVal(a[0].T, c.resType(0))
	})
	reg(I+"IsInt64", func(c *LibCtx, a []*Val) *Val {
		c.nonNil(a[0])
		return boolVal(And(Ge(a[0].T, NumStr("-9223372036854775808")), Le(a[0].T, NumStr("9223372036854775807"))))
	})
	reg(I+"Uint64", func(c *LibCtx, a []*Val) *Val {
		c.nonNil(a[0])
		c.panicIf(Or(Lt(a[0].T, Num(0)), Gt(a[0].T, NumStr("18446744073709551615"))), "Uint64-out-of-bound")
		return intVal(a[0].T, c.resType(0))
	})
	reg(I+"IsUint64", func(c *LibCtx, a []*Val) *Val {
		c.nonNil(a[0])
		return boolVal(And(Ge(a[0].T, Num(0)), Le(a[0].T, NumStr("18446744073709551615"))))
	})
	reg(I+"String", func(c *LibCtx, a []*Val) *Val {
		// String() on a nil Int dereferences nil
		c.nonNil(a[0])
		return strVal(UF("intString", []string{SInt}, SStr, a[0].T), c.resType(0))
	})
	reg(I+"BigInt", func(c *LibCtx, a []*Val) *Val { return opaqueVal(c.resType(0)) })
	reg(I+"Sign", func(c *LibCtx, a []*Val) *Val {
		c.nonNil(a[0])
		return intVal(Ite(Gt(a[0].T, Num(0)), Num(1), Ite(Lt(a[0].T, Num(0)), Num(-1), Num(0))), c.resType(0))
	})
	newInt := func(c *LibCtx, a []*Val) *Val { return bigVal(FalseT, a[0].T, c.resType(0)) }
	zeroInt := func(c *LibCtx, a []*Val) *Val { return bigVal(FalseT, Num(0), c.resType(0)) }
	oneInt := func(c *LibCtx, a []*Val) *Val { return bigVal(FalseT, Num(1), c.resType(0)) }
	for _, p := range []string{pMath, "globfn:" + pSdk, "globfn:" + pMath} {
		reg(p+"NewInt", newInt)
		reg(p+"NewIntFromUint64", newInt)
		reg(p+"ZeroInt", zeroInt)
		reg(p+"OneInt", oneInt)
	}
	minmax := func(isMin bool) LibFn {
		return func(c *LibCtx, a []*Val) *Val {
			c.nonNil(a[0], a[1])
			cond := Le(a[0].T, a[1].T)
			if !isMin {
				cond = Ge(a[0].T, a[1].T)
			}
			return bigVal(FalseT, Ite(cond, a[0].T, a[1].T), c.resType(0))
		}
	}
	for _, p := range []string{pMath, "globfn:" + pSdk} {
		reg(p+"MinInt", minmax(true))
		reg(p+"MaxInt", minmax(false))
	}

	// ---------------- sdk.Dec ----------------
	D := "(" + pSdk + "Dec)."
	cmpD := func(op string) LibFn {
		return func(c *LibCtx, a []*Val) *Val {
			c.nonNil(a[0], a[1])
			return boolVal(cmp(op, a[0].T, a[1].T))
		}
	}
	reg(D+"IsNil", func(c *LibCtx, a []*Val) *Val { return boolVal(a[0].Nil) })
	reg(D+"IsZero", func(c *LibCtx, a []*Val) *Val { c.nonNil(a[0]); return boolVal(Eq(a[0].T, Num(0))) })
	reg(D+"IsNegative", func(c *LibCtx, a []*Val) *Val { c.nonNil(a[0]); return boolVal(Lt(a[0].T, Num(0))) })
	reg(D+"IsPositive", func(c *LibCtx, a []*Val) *Val { c.nonNil(a[0]); return boolVal(Gt(a[0].T, Num(0))) })
	reg(D+"Equal", func(c *LibCtx, a []*Val) *Val { c.nonNil(a[0], a[1]); return boolVal(Eq(a[0].T, a[1].T)) })
	reg(D+"GT", cmpD(">"))
	reg(D+"GTE", cmpD(">="))
	reg(D+"LT", cmpD("<"))
	reg(D+"LTE", cmpD("<="))
	reg(D+"Neg", func(c *LibCtx, a []*Val) *Val { c.nonNil(a[0]); return bigVal(FalseT, Neg(a[0].T), c.resType(0)) })
	reg(D+"Abs", func(c *LibCtx, a []*Val) *Val { c.nonNil(a[0]); return bigVal(FalseT, AbsI(a[0].T), c.resType(0)) })
	reg(D+"Add", func(c *LibCtx, a []*Val) *Val { c.nonNil(a[0], a[1]); return c.decRes(Add(a[0].T, a[1].T), c.resType(0)) })
	reg(D+"Sub", func(c *LibCtx, a []*Val) *Val { c.nonNil(a[0], a[1]); return c.decRes(Sub(a[0].T, a[1].T), c.resType(0)) })
	reg(D+"Mul", func(c *LibCtx, a []*Val) *Val {
		c.nonNil(a[0], a[1])
		return c.decRes(ChopRound(Mul(a[0].T, a[1].T)), c.resType(0))
	})
	reg(D+"MulTruncate", func(c *LibCtx, a []*Val) *Val {
		c.nonNil(a[0], a[1])
		return c.decRes(TruncP(Mul(a[0].T, a[1].T)), c.resType(0))
	})
	reg(D+"MulInt", func(c *LibCtx, a []*Val) *Val { c.nonNil(a[0], a[1]); return c.decRes(Mul(a[0].T, a[1].T), c.resType(0)) })
	reg(D+"MulInt64", func(c *LibCtx, a []*Val) *Val { c.nonNil(a[0]); return c.decRes(Mul(a[0].T, a[1].T), c.resType(0)) })
	reg(D+"Quo", func(c *LibCtx, a []*Val) *Val {
		c.nonNil(a[0], a[1])
		c.panicIf(Eq(a[1].T, Num(0)), "Dec-division-by-zero")
		return c.decRes(ChopRound(TQuo(Mul(Mul(a[0].T, P18), P18), a[1].T)), c.resType(0))
	})
	reg(D+"QuoTruncate", func(c *LibCtx, a []*Val) *Val {
		c.nonNil(a[0], a[1])
		c.panicIf(Eq(a[1].T, Num(0)), "Dec-division-by-zero")
		return c.decRes(TruncP(TQuo(Mul(Mul(a[0].T, P18), P18), a[1].T)), c.resType(0))
	})
	reg(D+"QuoInt", func(c *LibCtx, a []*Val) *Val {
		c.nonNil(a[0], a[1])
		c.panicIf(Eq(a[1].T, Num(0)), "Dec-division-by-zero")
		return bigVal(FalseT, TQuo(a[0].T, a[1].T), c.resType(0))
	})
	reg(D+"QuoInt64", func(c *LibCtx, a []*Val) *Val {
		c.nonNil(a[0])
		c.panicIf(Eq(a[1].T, Num(0)), "Dec-division-by-zero")
		return bigVal(FalseT, TQuo(a[0].T, a[1].T), c.resType(0))
	})
	reg(D+"TruncateInt", func(c *LibCtx, a []*Val) *Val { c.nonNil(a[0]); return bigVal(FalseT, TruncP(a[0].T), c.resType(0)) })
	reg(D+"TruncateDec", func(c *LibCtx, a []*Val) *Val {
		c.nonNil(a[0])
		return bigVal(FalseT, Mul(TruncP(a[0].T), P18), c.resType(0))
	})
	reg(D+"RoundInt", func(c *LibCtx, a []*Val) *Val { c.nonNil(a[0]); return bigVal(FalseT, ChopRound(a[0].T), c.resType(0)) })
	reg(D+"TruncateInt64", func(c *LibCtx, a []*Val) *Val {
		c.nonNil(a[0])
		r := TruncP(a[0].T)
		c.panicIf(Or(Lt(r, NumStr("-9223372036854775808")), Gt(r, NumStr("9223372036854775807"))), "Int64-out-of-bound")
		return intVal(r, c.resType(0))
	})
	reg(D+"RoundInt64", func(c *LibCtx, a []*Val) *Val {
		c.nonNil(a[0])
		r := ChopRound(a[0].T)
		c.panicIf(Or(Lt(r, NumStr("-9223372036854775808")), Gt(r, NumStr("9223372036854775807"))), "Int64-out-of-bound")
		return intVal(r, c.resType(0))
	})
	reg(D+"String", func(c *LibCtx, a []*Val) *Val {
		// Dec.String() returns "<nil>" for a nil Dec: no panic
		return strVal(UF("decString", []string{SBool, SInt}, SStr, a[0].Nil, a[0].T), c.resType(0))
	})
	reg(D+"IsInteger", func(c *LibCtx, a []*Val) *Val { c.nonNil(a[0]); return boolVal(Eq(ModC(a[0].T, P18), Num(0))) })
	for _, p := range []string{pSdk, "globfn:" + pSdk} {
		reg(p+"ZeroDec", func(c *LibCtx, a []*Val) *Val { return bigVal(FalseT, Num(0), c.resType(0)) })
		reg(p+"OneDec", func(c *LibCtx, a []*Val) *Val { return bigVal(FalseT, P18, c.resType(0)) })
		reg(p+"NewDec", func(c *LibCtx, a []*Val) *Val { return bigVal(FalseT, Mul(a[0].T, P18), c.resType(0)) })
		reg(p+"NewDecFromInt", func(c *LibCtx, a []*Val) *Val {
			c.nonNil(a[0])
			return bigVal(FalseT, Mul(a[0].T, P18), c.resType(0))
		})
		reg(p+"MustNewDecFromStr", func(c *LibCtx, a []*Val) *Val {
			// used with literal constants only; the value is an uninterpreted function of the text
			c.x.note("MustNewDecFromStr: value uninterpreted, assumed not to panic")
			return bigVal(FalseT, UF("decFromStr", []string{SStr}, SInt, a[0].T), c.resType(0))
		})
		reg(p+"MinDec", func(c *LibCtx, a []*Val) *Val {
			c.nonNil(a[0], a[1])
			return bigVal(FalseT, Ite(Le(a[0].T, a[1].T), a[0].T, a[1].T), c.resType(0))
		})
		reg(p+"MaxDec", func(c *LibCtx, a []*Val) *Val {
			c.nonNil(a[0], a[1])
			return bigVal(FalseT, Ite(Ge(a[0].T, a[1].T), a[0].T, a[1].T), c.resType(0))
		})
	}

	// ---------------- time ----------------
	T := "(time.Time)."
	reg(T+"Before", func(c *LibCtx, a []*Val) *Val { return boolVal(Lt(a[0].T, a[1].T)) })
	reg(T+"After", func(c *LibCtx, a []*Val) *Val { return boolVal(Gt(a[0].T, a[1].T)) })
	reg(T+"Equal", func(c *LibCtx, a []*Val) *Val { return boolVal(Eq(a[0].T, a[1].T)) })
	reg(T+"IsZero", func(c *LibCtx, a []*Val) *Val { return boolVal(Eq(a[0].T, timeZero)) })
	reg(T+"Sub", func(c *LibCtx, a []*Val) *Val {
		// Go saturates at the int64 range
		d := Sub(a[0].T, a[1].T)
		lo, hi := NumStr("-9223372036854775808"), NumStr("9223372036854775807")
		return intVal(Ite(Lt(d, lo), lo, Ite(Gt(d, hi), hi, d)), c.resType(0))
	})
	reg(T+"Add", func(c *LibCtx, a []*Val) *Val { return timeVal(Add(a[0].T, a[1].T), c.resType(0)) })
	reg(T+"Unix", func(c *LibCtx, a []*Val) *Val {
		r := DivC(a[0].T, Num(1000000000))
		c.x.note("time.Time.Unix: instants assumed within the int64-seconds range")
		return intVal(r, c.resType(0))
	})
	reg(T+"UnixMilli", func(c *LibCtx, a []*Val) *Val {
		r := DivC(a[0].T, Num(1000000))
		lo, hi := NumStr("-9223372036854775808"), NumStr("9223372036854775807")
		c.panicIf(Or(Lt(r, lo), Gt(r, hi)), "overflow-UnixMilli")
		return intVal(r, c.resType(0))
	})
	reg(T+"UnixNano", func(c *LibCtx, a []*Val) *Val {
		lo, hi := NumStr("-9223372036854775808"), NumStr("9223372036854775807")
		c.panicIf(Or(Lt(a[0].T, lo), Gt(a[0].T, hi)), "overflow-UnixNano")
		return intVal(a[0].T, c.resType(0))
	})
	reg(T+"UTC", func(c *LibCtx, a []*Val) *Val { return timeVal(a[0].T, c.resType(0)) })
	reg(T+"Local", func(c *LibCtx, a []*Val) *Val { return timeVal(a[0].T, c.resType(0)) })
	reg(T+"String", func(c *LibCtx, a []*Val) *Val { return strVal(UF("timeString", []string{SInt}, SStr, a[0].T), c.resType(0)) })
	reg(T+"AddDate", func(c *LibCtx, a []*Val) *Val {
		return timeVal(UF("addDate", []string{SInt, SInt, SInt, SInt}, SInt, a[0].T, a[1].T, a[2].T, a[3].T), c.resType(0))
	})
	reg("(*time.Time).String", func(c *LibCtx, a []*Val) *Val {
		c.x.nilCheck(c.fr, c.st, c.in, a[0])
		return strVal(Const(freshName("tstr"), SStr), c.resType(0))
	})
	reg("time.Unix", func(c *LibCtx, a []*Val) *Val {
		return timeVal(Add(Mul(a[0].T, Num(1000000000)), a[1].T), c.resType(0))
	})
	reg("time.Now", func(c *LibCtx, a []*Val) *Val {
		c.x.note("time.Now(): nondeterministic value")
		return timeVal(Const(freshName("now"), SInt), c.resType(0))
	})
	reg("time.Since", func(c *LibCtx, a []*Val) *Val {
		c.x.note("time.Since(): nondeterministic value")
		return intVal(Const(freshName("since"), SInt), c.resType(0))
	})
	reg("(time.Duration).String", func(c *LibCtx, a []*Val) *Val { return strVal(Const(freshName("dstr"), SStr), c.resType(0)) })
	reg("(time.Duration).Seconds", func(c *LibCtx, a []*Val) *Val { return opaqueVal(c.resType(0)) })
	reg("(time.Duration).Hours", func(c *LibCtx, a []*Val) *Val { return opaqueVal(c.resType(0)) })
	reg("(time.Duration).Nanoseconds", func(c *LibCtx, a []*Val) *Val { return intVal(a[0].T, c.resType(0)) })
	reg("(time.Duration).Milliseconds", func(c *LibCtx, a []*Val) *Val { return intVal(TQuo(a[0].T, Num(1000000)), c.resType(0)) })

	// ---------------- errors / fmt ----------------
	errNew := func(c *LibCtx, a []*Val) *Val { return nonNilErr(c) }
	reg("fmt.Errorf", errNew)
	reg("errors.New", errNew)
	reg("google.golang.org/grpc/status.Error", errNew)
	reg("google.golang.org/grpc/status.Errorf", errNew)
	// A wrapped error keeps the registered error it was built from as its root (errors.Is semantics): contracts can say
	// which check rejected a request (errIs(err, "types/errors.ErrInsufficientFunds")).
	reg("(*cosmossdk.io/errors.Error).Wrap", func(c *LibCtx, a []*Val) *Val {
		e := nonNilErr(c)
		if a[0].K == VPtr && a[0].T != nil {
			c.st.Assume(Eq(errRootTerm(e), a[0].T))
		}
		return e
	})
	reg("(*cosmossdk.io/errors.Error).Wrapf", func(c *LibCtx, a []*Val) *Val {
		e := nonNilErr(c)
		if a[0].K == VPtr && a[0].T != nil {
			c.st.Assume(Eq(errRootTerm(e), a[0].T))
		}
		return e
	})
	wrap := func(c *LibCtx, a []*Val) *Val {
		e := freshErr(c, "wrapped")
		c.st.Assume(Eq(Eq(e.Tag, Num(0)), Eq(a[0].Tag, Num(0))))
		if a[0].K == VIface {
			c.st.Assume(Implies(Neq(a[0].Tag, Num(0)), Eq(errRootTerm(e), errRootOf(a[0]))))
		}
		return e
	}
	for _, p := range []string{"globfn:" + pErrs, "cosmossdk.io/errors.", "github.com/pkg/errors."} {
		reg(p+"Wrap", wrap)
		reg(p+"Wrapf", wrap)
	}
	reg("(error).Error", func(c *LibCtx, a []*Val) *Val {
		c.panicIf(Eq(a[0].Tag, Num(0)), "nil-error-Error()")
		return strVal(Const(freshName("errstr"), SStr), c.resType(0))
	})
	str := func(c *LibCtx, a []*Val) *Val { return strVal(Const(freshName("s"), SStr), c.resType(0)) }
	reg("fmt.Sprintf", str)
	reg("fmt.Sprint", str)
	reg("fmt.Sprintln", str)
	reg("strconv.Itoa", func(c *LibCtx, a []*Val) *Val { return strVal(UF("intString", []string{SInt}, SStr, a[0].T), c.resType(0)) })
	reg("strconv.FormatBool", str)
	reg("strconv.FormatInt", str)
	reg("strconv.FormatUint", str)
	reg("github.com/gogo/protobuf/proto.CompactTextString", str)
	reg("gopkg.in/yaml.v2.Marshal", func(c *LibCtx, a []*Val) *Val { return tupleOf(c.sig, c.x.freshResultsAssumed(c.st, c.sig)) })
	reg("(*encoding/base64.Encoding).DecodeString", func(c *LibCtx, a []*Val) *Val {
		err := freshErr(c, "b64err")
		c.st.Assume(Eq(Eq(err.Tag, Num(0)), UF("b64ok", []string{SStr}, SBool, a[1].T)))
		return &Val{K: VTuple, Typ: c.sig.Results(), Fields: []*Val{strVal(UF("b64dec", []string{SStr}, SStr, a[1].T), c.resType(0)), err}}
	})
	reg("(*crypto/x509.Certificate).CheckSignature", func(c *LibCtx, a []*Val) *Val {
		// cryptographic verification is uninterpreted: a predicate of certificate, algorithm, signed bytes, signature
		err := freshErr(c, "sigerr")
		var certT *Term = Num(0)
		if a[0].K == VPtr && a[0].T != nil {
			certT = a[0].T
		}
		ok := UF("sigVerifies", []string{SStr, SInt, SStr, SStr}, SBool, UF("certSource", []string{SInt}, SStr, certT), a[1].T, a[2].T, a[3].T)
		c.st.Assume(Eq(Eq(err.Tag, Num(0)), ok))
		return err
	})
	reg("fmt.Println", func(c *LibCtx, a []*Val) *Val { return tupleOf(c.sig, c.x.freshResultsAssumed(c.st, c.sig)) })
	reg("fmt.Printf", func(c *LibCtx, a []*Val) *Val { return tupleOf(c.sig, c.x.freshResultsAssumed(c.st, c.sig)) })
}

var timeZero = NumStr("-62135596800000000000")

// ---------------- sort ----------------
// sort.Sort on the repository's BySequenceId ([]*Minter ordered by SequenceId): afterwards the slice holds the same elements
// (every new element is one of the old ones and every old one is still present) in ascending SequenceId order. Other
// sort.Interface implementations are not modelled.
func init() {
	// sort.Strings: a permutation of the slice. What the model offers is membership (the contract-level function
	// strIn(row, off, n, k): "k is among the first n elements"), which is what a sweep over collected map keys needs;
	// the order of the result is not modelled.
	reg("sort.Strings", func(c *LibCtx, a []*Val) *Val {
		s := a[0]
		sf := c.x.P.Specs.SpecFuncs["strIn"]
		if s.K != VSlice || sf == nil {
			c.x.note("sort.Strings: not modelled here (needs the contract-level function strIn)")
			return nil
		}
		et := sliceElem(s.Typ)
		fl := flatten(et)
		if len(fl) != 1 || fl[0].Sort != SStr {
			return nil
		}
		key, h := c.st.heapArr(et, fl[0], true)
		oldRow := Select(h, s.T)
		newRow := Const(freshName("sorted"), oldRow.Sort)
		k := Bound("k", SStr)
		env := &SpecEnv{x: c.x, st: c.st, vars: map[string]*Val{}, pkg: sf.Pkg, nbound: 1}
		app := func(row *Term) *Term {
			return scalar(c.x.applySpec(env, sf, []*Val{{K: VArr, T: row}, intVal(s.Off, nil), intVal(s.Len, nil), valOfSort(k)}))
		}
		c.st.Assume(Forall([]*Term{k}, Eq(app(newRow), app(oldRow)), []*Term{app(newRow)}, []*Term{app(oldRow)}))
		c.st.setHeap(key, Store(h, s.T, newRow))
		return nil
	})
	reg("sort.Sort", func(c *LibCtx, a []*Val) *Val {
		iv := a[0]
		if iv.K != VIface || iv.Tag.K != TNum {
			c.x.note("sort.Sort on an unknown sort.Interface value: not modelled")
			return nil
		}
		T := typeIDTypes[int(iv.Tag.Num.Int64())]
		if T == nil || !strings.HasSuffix(typeString(T), "cfeminter/types.BySequenceId") {
			c.x.note("sort.Sort on " + typeString(T) + ": not modelled (elements keep their order in the model)")
			return nil
		}
		s := c.x.unbox(c.st, iv, T)
		if s.K != VSlice {
			return nil
		}
		et := sliceElem(T) // *Minter
		fl := flatten(et)
		key, h := c.st.heapArr(et, fl[0], true)
		oldRow := Select(h, s.T)
		newRow := Const(freshName("sorted"), oldRow.Sort)
		i, j := Bound("i", SInt), Bound("j", SInt)
		inR := func(k *Term) *Term { return And(Ge(k, Num(0)), Lt(k, s.Len)) }
		at := func(row, k *Term) *Term { return Select(row, ElemIdx(s.Off, k)) }
		// same elements (as a set, which is what the validation that follows relies on)
		c.st.Assume(Forall([]*Term{i}, Implies(inR(i), Exists([]*Term{j}, And(inR(j), Eq(at(newRow, i), at(oldRow, j))))), []*Term{at(newRow, i)}))
		c.st.Assume(Forall([]*Term{j}, Implies(inR(j), Exists([]*Term{i}, And(inR(i), Eq(at(newRow, i), at(oldRow, j))))), []*Term{at(oldRow, j)}))
		// positions outside the slice keep their content
		c.st.Assume(Forall([]*Term{i}, Implies(Not(inR(Sub(i, s.Off))), Eq(Select(newRow, i), Select(oldRow, i))), []*Term{Select(newRow, i)}))
		// ascending SequenceId
		mt := ptrElem(et)
		if path, ok := fieldPath(mt, "SequenceId", 0); ok {
			prefix, ft := pathPrefix(mt, path)
			sl := flatten(ft)
			_, seq := c.st.heapArr(mt, Leaf{prefix + sl[0].Path, sl[0].Sort, sl[0].Ref}, false)
			c.st.Assume(Forall([]*Term{i, j}, Implies(And(inR(i), inR(j), Le(i, j)), Le(Select(seq, at(newRow, i)), Select(seq, at(newRow, j)))),
				[]*Term{at(newRow, i), at(newRow, j)}))
		}
		c.st.setHeap(key, Store(h, s.T, newRow))
		return nil
	})
}
