package main

import (
	"encoding/json"
	"fmt"
	"go/types"
	"math/big"
	"os"
	"os/exec"
	"path/filepath"
	"sort"
	"strconv"
	"strings"

	"golang.org/x/tools/go/ssa"
)

// Automatic replay of a solver counterexample on the real code.
//
// Scope (stated, not hidden): functions whose receiver, parameters and results are "flat" values — integers, booleans,
// strings, math.Int, sdk.Dec, time.Time, named versions of those, structs of those, a pointer to such a struct, and `error`
// as a result. For such a function the counterexample of a failed obligation fixes every input; a test is generated
// (injected with `go test -overlay`, nothing is written into /repo) that builds exactly those inputs, calls the real
// function and prints what it returned or that it panicked.
//   - a no-panic obligation is confirmed when the real call panics;
//   - a postcondition obligation is confirmed when the postcondition, evaluated on the real inputs and the real outputs,
//     is refuted by the solver (hypothesis: the clause; goal: false) — so a confirmation never rests on the engine's own
//     model of the function body.
// Anything else (state-dependent functions, slices, maps, coins, loop-invariant obligations whose model is a loop-head state,
// strings that must be bech32 addresses) is not replayed: the violation line then ends with no-failing-input-found.

const rpMaxList = 3

type rpCtx struct {
	p       *Program
	pkg     *types.Package
	imports map[string]string // path -> name
	model   map[string]string
	strMemo map[string]string // model element -> synthesized string
	strN    int
	fail    string
	st      *State
	strMode int // 0: as the model says; 1: strings that are not literals become invalid denominations; 2: ... become empty
	strUsed bool
}

func (c *rpCtx) qual(pk *types.Package) string {
	if pk == c.pkg {
		return ""
	}
	if a, ok := c.imports[pk.Path()]; ok {
		return a
	}
	// a fresh alias: two imported packages may share a name (the repo has several packages called "types")
	alias := pk.Name()
	for n := 2; ; n++ {
		taken := false
		for _, a := range c.imports {
			if a == alias {
				taken = true
			}
		}
		if !taken {
			break
		}
		alias = fmt.Sprintf("%s%d", pk.Name(), n)
	}
	c.imports[pk.Path()] = alias
	return alias
}

func (c *rpCtx) typeStr(t types.Type) string { return types.TypeString(t, c.qual) }

// rpSupported: the type can be built from model leaves and printed back.
func rpSupported(t types.Type, pkg *types.Package, depth int, result bool) bool {
	switch classify(t) {
	case VInt, VBool, VBig, VTime:
		return true
	case VStr:
		b, ok := types.Unalias(t).Underlying().(*types.Basic)
		return ok && b.Info()&types.IsString != 0
	case VStruct:
		n, ok := types.Unalias(t).(*types.Named)
		if !ok {
			return false
		}
		st := n.Underlying().(*types.Struct)
		for i := 0; i < st.NumFields(); i++ {
			f := st.Field(i)
			if !f.Exported() && n.Obj().Pkg() != pkg {
				return false
			}
			if !rpSupported(f.Type(), pkg, depth, result) {
				return false
			}
		}
		return true
	case VPtr:
		if depth > 2 {
			return false
		}
		et := ptrElem(t)
		return et != nil && classify(et) != VPtr && classify(et) != VIface && rpSupported(et, pkg, depth+1, result)
	case VSlice:
		// a list of flat structs, of pointers to flat structs, or of scalars; at most rpMaxList elements are built
		if depth > 2 {
			return false
		}
		et := sliceElem(t)
		if et == nil {
			return false
		}
		if classify(et) == VPtr {
			pe := ptrElem(et)
			return pe != nil && classify(pe) == VStruct && rpSupported(pe, pkg, depth+1, result)
		}
		return classify(et) != VSlice && classify(et) != VIface && rpSupported(et, pkg, depth+1, result)
	case VIface:
		if result {
			return typeString(t) == "error"
		}
		// a logger argument never influences a result: the no-op logger stands in
		return depth == 0 && typeString(t) == "github.com/tendermint/tendermint/libs/log.Logger"
	}
	return false
}

func (c *rpCtx) synthString(name string) (string, *Term) {
	if l, ok := c.model[name+"#lit"]; ok {
		s := strings.TrimPrefix(l, "str:")
		if l == "bytes:nil" {
			s = ""
		}
		return s, strLit(s)
	}
	elem := c.model[name]
	c.strUsed = true
	switch c.strMode {
	case 2:
		return "", strLit("")
	case 3:
		c.strN++
		s := fmt.Sprintf("1zq%d", c.strN) // not a denomination itself, but one when a letter is put in front
		return s, strLit(s)
	case 4:
		return "ab", strLit("ab") // one character short of a denomination
	}
	if s, ok := c.strMemo[elem]; ok && elem != "" {
		return s, strLit(s)
	}
	n := -1
	if v, ok := c.model[name+"#len"]; ok {
		if k, err := strconv.Atoi(v); err == nil {
			n = k
		}
	}
	vd, hasVD := c.model[name+"#validDenom"]
	if c.strMode == 1 {
		vd, hasVD = "false", true
		if n == 0 {
			n = 4
		}
	}
	c.strN++
	tag := fmt.Sprintf("q%d", c.strN)
	var s string
	switch {
	case n == 0:
		s = ""
	case hasVD && vd == "true":
		if n >= 0 && n < 3 {
			c.fail = "a valid denomination shorter than 3 characters does not exist"
			return "", nil
		}
		s = "zz" + tag
		for n > 0 && len(s) < n {
			s += "a"
		}
		if n > 0 && len(s) > n {
			s = s[:n]
		}
	case hasVD && vd == "false":
		s = "!" + tag
		for n > 0 && len(s) < n {
			s += "!"
		}
		if n > 0 && len(s) > n {
			s = s[:n]
		}
	default:
		s = "zz" + tag
		for n > 0 && len(s) < n {
			s += "a"
		}
		if n > 0 && len(s) > n {
			s = s[:n]
		}
	}
	if n > 128 {
		c.fail = "string length in the model too large to build"
		return "", nil
	}
	if elem != "" {
		c.strMemo[elem] = s
	}
	return s, strLit(s)
}

// build: Go expression and symbolic value for a value of type t whose leaves are read from the model under `name`.
func (c *rpCtx) build(t types.Type, name string) (string, *Val) {
	if c.fail != "" {
		return "", nil
	}
	get := func(path string) (string, bool) { v, ok := c.model[name+path]; return v, ok }
	num := func(path string) *big.Int {
		v, ok := get(path)
		if !ok {
			return big.NewInt(0)
		}
		b, ok2 := new(big.Int).SetString(strings.ReplaceAll(v, " ", ""), 10)
		if !ok2 {
			c.fail = "model value of " + name + path + " is not an integer: " + v
			return big.NewInt(0)
		}
		return b
	}
	switch classify(t) {
	case VInt:
		b := num("")
		lo, hi := intRange(t)
		if lo != nil && (b.Cmp(lo.Num) < 0 || b.Cmp(hi.Num) > 0) {
			c.fail = "model value of " + name + " outside its machine type"
			return "", nil
		}
		return fmt.Sprintf("%s(%s)", c.typeStr(t), b.String()), intVal(NumBig(b), t)
	case VBool:
		v, _ := get("")
		if v == "true" {
			return "true", boolVal(TrueT)
		}
		return "false", boolVal(FalseT)
	case VStr:
		s, term := c.synthString(name)
		if c.fail != "" {
			return "", nil
		}
		return fmt.Sprintf("%s(%s)", c.typeStr(t), strconv.Quote(s)), strVal(term, t)
	case VTime:
		b := num(".t")
		if !b.IsInt64() {
			c.fail = "time value outside int64 nanoseconds"
			return "", nil
		}
		c.imports["time"] = "time"
		return fmt.Sprintf("time.Unix(0, %s).UTC()", b.String()), timeVal(NumBig(b), t)
	case VBig:
		nilv, _ := get(".nil")
		b := num(".v")
		v := &Val{K: VBig, Typ: t, IsDec: isDecType(t), Nil: BoolT(nilv == "true"), T: NumBig(b)}
		if nilv == "true" {
			return c.typeStr(t) + "{}", v
		}
		if isDecType(t) {
			return fmt.Sprintf("rpDec(%q)", b.String()), v
		}
		return fmt.Sprintf("rpInt(%q)", b.String()), v
	case VStruct:
		st := types.Unalias(t).Underlying().(*types.Struct)
		var parts []string
		v := &Val{K: VStruct, Typ: t}
		for i := 0; i < st.NumFields(); i++ {
			e, fv := c.build(st.Field(i).Type(), fmt.Sprintf("%s.%d", name, i))
			if c.fail != "" {
				return "", nil
			}
			parts = append(parts, st.Field(i).Name()+": "+e)
			v.Fields = append(v.Fields, fv)
		}
		return c.typeStr(t) + "{" + strings.Join(parts, ", ") + "}", v
	case VPtr:
		et := ptrElem(t)
		ref := num("")
		if ref.Sign() == 0 {
			return "(" + c.typeStr(t) + ")(nil)", &Val{K: VPtr, Typ: t, T: Num(0), Ptr: &PtrInfo{Base: PObj, Root: et}}
		}
		e, pv := c.build(et, name+"->")
		if c.fail != "" {
			return "", nil
		}
		r := c.st.alloc()
		if err := c.st.storeObj(et, r, "", pv); err != nil {
			c.fail = err.Error()
			return "", nil
		}
		if classify(et) == VStruct {
			return "&" + e, &Val{K: VPtr, Typ: t, T: r, Ptr: &PtrInfo{Base: PObj, Root: et}}
		}
		return "rpPtr(" + e + ")", &Val{K: VPtr, Typ: t, T: r, Ptr: &PtrInfo{Base: PObj, Root: et}}
	case VSlice:
		et := sliceElem(t)
		n := num(".len")
		arr := num(".arr")
		if n.Sign() == 0 && arr.Sign() == 0 {
			return "(" + c.typeStr(t) + ")(nil)", &Val{K: VSlice, Typ: t, T: Num(0), Off: Num(0), Len: Num(0)}
		}
		if !n.IsInt64() || n.Int64() > rpMaxList || n.Sign() < 0 {
			c.fail = "list in the model longer than the replay builds (" + n.String() + " elements)"
			return "", nil
		}
		ref := c.st.alloc()
		var parts []string
		for k := 0; k < int(n.Int64()); k++ {
			e, ev := c.build(et, fmt.Sprintf("%s[%d]", name, k))
			if c.fail != "" {
				return "", nil
			}
			if err := c.st.storeElem(et, ref, ElemIdx(Num(0), Num(int64(k))), "", ev); err != nil {
				c.fail = err.Error()
				return "", nil
			}
			parts = append(parts, e)
		}
		return c.typeStr(t) + "{" + strings.Join(parts, ", ") + "}", &Val{K: VSlice, Typ: t, T: ref, Off: Num(0), Len: NumBig(n)}
	case VIface:
		c.imports["github.com/tendermint/tendermint/libs/log"] = "tmlog"
		return "tmlog.NewNopLogger()", freshVal(t, "logger", true)
	}
	c.fail = "unsupported type " + typeString(t)
	return "", nil
}

// printer: Go statements printing the leaves of expression e (type t); lbl is a Go expression of type string that
// evaluates to the leaf-name prefix; lines have the format "AR <name>=<value>".
func (c *rpCtx) printer(t types.Type, e, lbl string, sb *strings.Builder, depth int) {
	switch classify(t) {
	case VInt:
		fmt.Fprintf(sb, "\tfmt.Printf(\"AR %%s=%%d\\n\", %s, %s)\n", lbl, e)
	case VBool:
		fmt.Fprintf(sb, "\tfmt.Printf(\"AR %%s=%%t\\n\", %s, %s)\n", lbl, e)
	case VStr:
		fmt.Fprintf(sb, "\tfmt.Printf(\"AR %%s=%%q\\n\", %s, string(%s))\n", lbl, e)
	case VTime:
		fmt.Fprintf(sb, "\tfmt.Printf(\"AR %%s.t=%%d\\n\", %s, (%s).UnixNano())\n", lbl, e)
	case VBig:
		val := "(" + e + ").String()"
		if isDecType(t) {
			val = "(" + e + ").BigInt().String()"
		}
		fmt.Fprintf(sb, "\tif (%s).IsNil() { fmt.Printf(\"AR %%s.nil=true\\n\", %s) } else { fmt.Printf(\"AR %%s.nil=false\\nAR %%s.v=%%s\\n\", %s, %s, %s) }\n", e, lbl, lbl, lbl, val)
	case VIface:
		fmt.Fprintf(sb, "\tif %s == nil { fmt.Printf(\"AR %%s.tag=0\\n\", %s) } else { fmt.Printf(\"AR %%s.tag=1\\nAR %%s.msg=%%q\\n\", %s, %s, %s.Error()) }\n", e, lbl, lbl, lbl, e)
	case VStruct:
		st := types.Unalias(t).Underlying().(*types.Struct)
		for i := 0; i < st.NumFields(); i++ {
			c.printer(st.Field(i).Type(), "("+e+")."+st.Field(i).Name(), fmt.Sprintf("%s+\".%d\"", lbl, i), sb, depth)
		}
	case VPtr:
		et := ptrElem(t)
		fmt.Fprintf(sb, "\tif %s == nil { fmt.Printf(\"AR %%s=0\\n\", %s) } else {\n\tfmt.Printf(\"AR %%s=1\\n\", %s)\n", e, lbl, lbl)
		c.printer(et, "(*"+e+")", lbl+"+\"->\"", sb, depth+1)
		sb.WriteString("\t}\n")
	case VSlice:
		et := sliceElem(t)
		iv, ev := fmt.Sprintf("i%d", depth), fmt.Sprintf("e%d", depth)
		fmt.Fprintf(sb, "\tfmt.Printf(\"AR %%s.len=%%d\\n\", %s, len(%s))\n", lbl, e)
		fmt.Fprintf(sb, "\tfor %s, %s := range %s {\n\t_ = %s\n", iv, ev, e, ev)
		c.printer(et, ev, fmt.Sprintf("%s+fmt.Sprintf(\"[%%d]\", %s)", lbl, iv), sb, depth+1)
		sb.WriteString("\t}\n")
	}
}

// decode: symbolic value of type t from printed leaves.
func (c *rpCtx) decode(t types.Type, label string, out map[string]string) *Val {
	if c.fail != "" {
		return nil
	}
	num := func(path string) *Term {
		v, ok := out[label+path]
		if !ok {
			return Num(0)
		}
		b, ok2 := new(big.Int).SetString(v, 10)
		if !ok2 {
			c.fail = "cannot parse printed value " + label + path + "=" + v
			return Num(0)
		}
		return NumBig(b)
	}
	switch classify(t) {
	case VInt:
		return intVal(num(""), t)
	case VBool:
		return boolVal(BoolT(out[label] == "true"))
	case VStr:
		s, err := strconv.Unquote(out[label])
		if err != nil {
			c.fail = "cannot parse printed string " + label
			return nil
		}
		return strVal(strLit(s), t)
	case VTime:
		return timeVal(num(".t"), t)
	case VBig:
		return &Val{K: VBig, Typ: t, IsDec: isDecType(t), Nil: BoolT(out[label+".nil"] == "true"), T: num(".v")}
	case VIface:
		return &Val{K: VIface, Typ: t, Tag: num(".tag"), T: Num(0)}
	case VStruct:
		st := types.Unalias(t).Underlying().(*types.Struct)
		v := &Val{K: VStruct, Typ: t}
		for i := 0; i < st.NumFields(); i++ {
			v.Fields = append(v.Fields, c.decode(st.Field(i).Type(), fmt.Sprintf("%s.%d", label, i), out))
		}
		return v
	case VPtr:
		et := ptrElem(t)
		if out[label] != "1" {
			return &Val{K: VPtr, Typ: t, T: Num(0), Ptr: &PtrInfo{Base: PObj, Root: et}}
		}
		pv := c.decode(et, label+"->", out)
		if c.fail != "" {
			return nil
		}
		r := c.st.alloc()
		if err := c.st.storeObj(et, r, "", pv); err != nil {
			c.fail = err.Error()
			return nil
		}
		return &Val{K: VPtr, Typ: t, T: r, Ptr: &PtrInfo{Base: PObj, Root: et}}
	}
	if classify(t) == VSlice {
		et := sliceElem(t)
		n, err := strconv.Atoi(out[label+".len"])
		if err != nil {
			c.fail = "cannot parse printed length of " + label
			return nil
		}
		if n == 0 {
			return &Val{K: VSlice, Typ: t, T: Num(0), Off: Num(0), Len: Num(0)}
		}
		ref := c.st.alloc()
		for k := 0; k < n; k++ {
			ev := c.decode(et, fmt.Sprintf("%s[%d]", label, k), out)
			if c.fail != "" {
				return nil
			}
			if err := c.st.storeElem(et, ref, ElemIdx(Num(0), Num(int64(k))), "", ev); err != nil {
				c.fail = err.Error()
				return nil
			}
		}
		return &Val{K: VSlice, Typ: t, T: ref, Off: Num(0), Len: Num(int64(n))}
	}
	c.fail = "unsupported result type " + typeString(t)
	return nil
}


// autoReplayable reports whether the function's whole signature is within the replay scope.
func autoReplayable(fn *ssa.Function) bool {
	if fn == nil || fn.Pkg == nil {
		return false
	}
	pkg := fn.Pkg.Pkg
	for _, prm := range fn.Params {
		if !rpSupported(prm.Type(), pkg, 0, false) {
			return false
		}
	}
	res := fn.Signature.Results()
	for i := 0; i < res.Len(); i++ {
		if !rpSupported(res.At(i).Type(), pkg, 0, true) {
			return false
		}
	}
	return true
}

// autoReplay replays the counterexample of obligation o on the real function. Returns (confirmed, detail).
func autoReplay(p *Program, id string, o *Obligation, replayPath string) (bool, string) {
	var detail string
	for mode := 0; mode <= 4; mode++ {
		ok, d, usedStr := autoReplayMode(p, id, o, replayPath, mode)
		if os.Getenv("GOCV_DEBUG") != "" {
			fmt.Fprintf(os.Stderr, "autoreplay mode %d: %v %s (strings used: %v)\n", mode, ok, d, usedStr)
		}
		if ok {
			return true, d
		}
		if mode == 0 {
			detail = d
		}
		if !usedStr {
			break // no synthesized string among the inputs: nothing to vary
		}
	}
	return false, detail
}

// autoReplayMode: one attempt; mode > 0 varies the strings the model leaves open (a candidate is believed only if the real
// run confirms it, so trying other inputs than the solver's is harmless).
func autoReplayMode(p *Program, id string, o *Obligation, replayPath string, mode int) (bool, string, bool) {
	c0 := &rpCtx{}
	ok, d := autoReplayOnce(p, id, o, replayPath, mode, c0)
	return ok, d, c0.strUsed
}

func autoReplayOnce(p *Program, id string, o *Obligation, replayPath string, mode int, report *rpCtx) (bool, string) {
	fn := p.Funcs[o.Func]
	fc := p.Specs.Contracts[o.Func]
	if fn == nil || fc == nil || o.Model == nil || !autoReplayable(fn) {
		return false, ""
	}
	isPanic := o.Kind == "no-panic"
	isPost := o.Kind == "post"
	if !isPanic && !isPost {
		return false, ""
	}
	x := NewExec(p)
	x.top, x.topKey, x.fc = fn, fc.Key(), fc
	// ground evaluation: every spec function is revealed
	x.revealed = map[string]bool{}
	for n := range p.Specs.SpecFuncs {
		x.revealed[n] = true
	}
	x.opaque = map[string]bool{}
	x.fuel = 8
	st := x.initState()
	c := &rpCtx{p: p, pkg: fn.Pkg.Pkg, imports: map[string]string{"fmt": "fmt", "testing": "testing", "cosmossdk.io/math": "math",
		"github.com/cosmos/cosmos-sdk/types": "sdk", "math/big": "big", "time": "time"}, model: o.Model, strMemo: map[string]string{}, st: st, strMode: mode}
	defer func() { report.strUsed = c.strUsed }()
	var detail string
	confirmed := false
	func() {
		defer func() {
			if r := recover(); r != nil {
				detail = fmt.Sprint("replay not possible: ", r)
			}
		}()
		var exprs []string
		var args []*Val
		for _, prm := range fn.Params {
			e, v := c.build(prm.Type(), "in:"+prm.Name())
			if c.fail != "" {
				detail = "replay not possible: " + c.fail
				return
			}
			exprs = append(exprs, e)
			args = append(args, v)
		}
		pre := st.Clone()
		// ---- the test ----
		var body strings.Builder
		for i, e := range exprs {
			fmt.Fprintf(&body, "\ta%d := %s\n", i, e)
		}
		body.WriteString("\tfmt.Printf(\"AR CALL\\n\")\n")
		res := fn.Signature.Results()
		var lhs []string
		for i := 0; i < res.Len(); i++ {
			lhs = append(lhs, fmt.Sprintf("r%d", i))
		}
		call := ""
		var argNames []string
		for i := range exprs {
			argNames = append(argNames, fmt.Sprintf("a%d", i))
		}
		if fn.Signature.Recv() != nil {
			call = fmt.Sprintf("a0.%s(%s)", fn.Name(), strings.Join(argNames[1:], ", "))
		} else {
			call = fmt.Sprintf("%s(%s)", fn.Name(), strings.Join(argNames, ", "))
		}
		if len(lhs) > 0 {
			fmt.Fprintf(&body, "\t%s := %s\n", strings.Join(lhs, ", "), call)
		} else {
			fmt.Fprintf(&body, "\t%s\n", call)
		}
		body.WriteString("\tfmt.Printf(\"AR RETURNED\\n\")\n")
		for i := 0; i < res.Len(); i++ {
			c.printer(res.At(i).Type(), fmt.Sprintf("r%d", i), fmt.Sprintf("\"R%d\"", i), &body, 0)
		}
		for i, prm := range fn.Params {
			if k := classify(prm.Type()); k == VPtr || k == VSlice {
				c.printer(prm.Type(), fmt.Sprintf("a%d", i), fmt.Sprintf("\"P%d\"", i), &body, 0)
			}
		}
		var src strings.Builder
		fmt.Fprintf(&src, "package %s\n\nimport (\n", fn.Pkg.Pkg.Name())
		var paths []string
		for ip := range c.imports {
			if ip != fn.Pkg.Pkg.Path() {
				paths = append(paths, ip)
			}
		}
		sort.Strings(paths)
		for _, ip := range paths {
			fmt.Fprintf(&src, "\t%s %q\n", c.imports[ip], ip)
		}
		src.WriteString(")\n\n")
		src.WriteString("func rpInt(s string) math.Int { v, ok := math.NewIntFromString(s); if !ok { panic(\"bad int\") }; return v }\n")
		src.WriteString("func rpDec(s string) sdk.Dec { b, ok := new(big.Int).SetString(s, 10); if !ok { panic(\"bad dec\") }; return sdk.NewDecFromBigIntWithPrec(b, 18) }\n")
		src.WriteString("func rpPtr[T any](v T) *T { return &v }\n")
		src.WriteString("var _ = rpInt\nvar _ = rpDec\nvar _ = time.Now\n\n")
		src.WriteString("func TestZZAutoReplay(t *testing.T) {\n\tdefer func() {\n\t\tif r := recover(); r != nil {\n\t\t\tfmt.Printf(\"AR PANIC %v\\n\", r)\n\t\t}\n\t}()\n")
		src.WriteString(body.String())
		src.WriteString("}\n")
		out, runErr := runOverlayTest(fn, src.String())
		lines := map[string]string{}
		called, returned, panicked := false, false, ""
		for _, ln := range strings.Split(out, "\n") {
			ln = strings.TrimSpace(ln)
			if !strings.HasPrefix(ln, "AR ") {
				continue
			}
			ln = ln[3:]
			switch {
			case ln == "CALL":
				called = true
			case ln == "RETURNED":
				returned = true
			case strings.HasPrefix(ln, "PANIC "):
				panicked = ln[6:]
			default:
				if i := strings.Index(ln, "="); i > 0 {
					lines[ln[:i]] = ln[i+1:]
				}
			}
		}
		rec := map[string]interface{}{"test_source": src.String(), "inputs": exprs, "printed": lines}
		defer func() {
			rec["confirmed"] = confirmed
			rec["detail"] = detail
			rec["input_variation"] = []string{"the solver's model", "strings left open by the model replaced by invalid denominations", "strings left open by the model replaced by empty strings",
				"strings left open by the model replaced by digit-leading strings", "strings left open by the model replaced by a two-letter string"}[mode]
			if mode == 0 || confirmed {
				patchReplayFile(replayPath, rec, confirmed)
			}
		}()
		if !called {
			detail = "replay test did not reach the call: " + clip(out, 400)
			if runErr != nil {
				detail += " (" + runErr.Error() + ")"
			}
			return
		}
		if isPanic {
			if panicked != "" && !returned {
				confirmed = true
				detail = fmt.Sprintf("the real %s panics on the counterexample inputs %v: %s", fn.Name(), exprs, panicked)
			} else {
				detail = "the real function returned normally on the model's inputs"
			}
			return
		}
		if panicked != "" || !returned {
			detail = "the real function panicked on the model's inputs: " + panicked
			return
		}
		// ---- the postcondition on the real inputs and outputs ----
		var results []*Val
		for i := 0; i < res.Len(); i++ {
			results = append(results, c.decode(res.At(i).Type(), fmt.Sprintf("R%d", i), lines))
		}
		for i, prm := range fn.Params {
			if classify(prm.Type()) == VSlice && args[i].T.K != TNum {
				// elements the call may have written in place
				et := sliceElem(prm.Type())
				n, _ := strconv.Atoi(lines[fmt.Sprintf("P%d.len", i)])
				for k := 0; k < n && c.fail == ""; k++ {
					if ev := c.decode(et, fmt.Sprintf("P%d[%d]", i, k), lines); ev != nil && c.fail == "" {
						_ = st.storeElem(et, args[i].T, ElemIdx(Num(0), Num(int64(k))), "", ev)
					}
				}
			}
			if classify(prm.Type()) == VPtr && lines[fmt.Sprintf("P%d", i)] == "1" {
				et := ptrElem(prm.Type())
				nv := c.decode(et, fmt.Sprintf("P%d->", i), lines)
				if c.fail == "" && nv != nil {
					_ = st.storeObj(et, args[i].T, "", nv)
				}
			}
		}
		if c.fail != "" {
			detail = "replay not possible: " + c.fail
			return
		}
		env := contractEnv(x, fc, fn, args, st)
		env.old = pre
		if len(fc.Results) == len(results) {
			for i, n := range fc.Results {
				if n != "_" {
					env.vars[n] = results[i]
				}
			}
		}
		var clause *Clause
		suffix := o.Name[strings.LastIndex(o.Name, "@")+1:]
		for i := range fc.Ensures {
			e := &fc.Ensures[i]
			if suffix == fmt.Sprintf("ensures#%d", i+1) || (e.Tag != "" && suffix == "ensures:"+e.Tag) {
				clause = e
			}
		}
		if clause == nil {
			detail = "postcondition clause of " + o.Name + " not found"
			return
		}
		var hyps []*Term
		for _, r := range fc.Requires {
			hyps = append(hyps, x.safeEvalBool(env2old(env, pre), r.E, "requires"))
		}
		g := x.safeEvalBool(env, clause.E, fc.Key()+" ensures (replay)")
		ob := &Obligation{Name: o.Name + "/replayed", Kind: "replay", Func: o.Func, Hyps: append(append(hyps, st.PC...), g), Goal: FalseT,
			Axioms: x.axioms, SpecDefs: x.specDefs, Opaque: x.opaque, Fuel: 8}
		ob.Discharge(20, false)
		rec["postcondition_on_real_values"] = clip(g.String(), 2000)
		rec["postcondition_check"] = ob.Output
		if ob.Status == "discharged" {
			confirmed = true
			detail = fmt.Sprintf("the real %s, called with %v, returns values on which the clause `%s` is false", fn.Name(), exprs, clip(clause.Text, 200))
		} else {
			detail = "the clause is not refuted on the real function's output for the model's inputs (the engine's model of the body and the real code may differ here, or the clause needs state the replay does not build)"
		}
	}()
	return confirmed, detail
}

func env2old(env *SpecEnv, pre *State) *SpecEnv {
	e := *env
	e.st = pre
	e.old = nil
	return &e
}

func runOverlayTest(fn *ssa.Function, src string) (string, error) {
	dir, err := os.MkdirTemp("", "gocv-autoreplay")
	if err != nil {
		return "", err
	}
	defer os.RemoveAll(dir)
	rel := strings.TrimPrefix(fn.Pkg.Pkg.Path(), repoModule)
	rel = strings.TrimPrefix(rel, "/")
	target := filepath.Join(repoDir(), rel, "zz_autoreplay_test.go")
	srcFile := filepath.Join(dir, "zz_autoreplay_test.go")
	if err := os.WriteFile(srcFile, []byte(src), 0o644); err != nil {
		return "", err
	}
	ov, _ := json.Marshal(map[string]interface{}{"Replace": map[string]string{target: srcFile}})
	ovFile := filepath.Join(dir, "overlay.json")
	_ = os.WriteFile(ovFile, ov, 0o644)
	cmd := exec.Command("go", "test", "-overlay", ovFile, "-vet=off", "-count=1", "-v", "-timeout", "120s", "-run", "^TestZZAutoReplay$", "./"+rel)
	cmd.Dir = repoDir()
	cmd.Env = append(os.Environ(), "GOFLAGS=-mod=mod", "GOPROXY=off", "GOSUMDB=off", "GOTOOLCHAIN=local")
	out, runErr := cmd.CombinedOutput()
	return string(out), runErr
}

func patchReplayFile(path string, rec map[string]interface{}, confirmed bool) {
	raw, err := os.ReadFile(path)
	if err != nil {
		return
	}
	var m map[string]interface{}
	if json.Unmarshal(raw, &m) != nil {
		return
	}
	m["replay"] = rec
	m["replayed_on_real_code"] = confirmed
	b, _ := json.MarshalIndent(m, "", " ")
	_ = os.WriteFile(path, b, 0o644)
}
