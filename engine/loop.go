package main

// Loop cutting at invariants.

import (
	"os"
	"fmt"
	"go/token"
	"go/types"
	"sort"
	"strings"

	"golang.org/x/tools/go/ssa"
)

func loopHeaders(fn *ssa.Function) []*ssa.BasicBlock {
	var hs []*ssa.BasicBlock
	for _, b := range fn.Blocks {
		if isLoopHeader(b) {
			hs = append(hs, b)
		}
	}
	sort.Slice(hs, func(i, j int) bool { return hs[i].Index < hs[j].Index })
	return hs
}

func loopOrdinal(b *ssa.BasicBlock) int {
	for i, h := range loopHeaders(b.Parent()) {
		if h == b {
			return i + 1
		}
	}
	return 0
}

func loopBody(h *ssa.BasicBlock) map[*ssa.BasicBlock]bool {
	body := map[*ssa.BasicBlock]bool{h: true}
	var stack []*ssa.BasicBlock
	for _, p := range h.Preds {
		if h.Dominates(p) && !body[p] {
			body[p] = true
			stack = append(stack, p)
		}
	}
	for len(stack) > 0 {
		n := stack[len(stack)-1]
		stack = stack[:len(stack)-1]
		for _, p := range n.Preds {
			if !body[p] {
				body[p] = true
				stack = append(stack, p)
			}
		}
	}
	return body
}

type loopEffects struct {
	cells     map[*ssa.Alloc]bool // non-heap allocs written
	objs      map[*ssa.Alloc]bool // heap allocs written (whole object havocked)
	heapTypes map[string]types.Type
	elemTypes map[string]types.Type
	maps      map[string]types.Type
	ghosts    map[string]bool
	iters     map[*ssa.Range]bool // map iterators advanced inside the loop
	unknown   bool
}

func newLoopEffects() *loopEffects {
	return &loopEffects{cells: map[*ssa.Alloc]bool{}, objs: map[*ssa.Alloc]bool{}, heapTypes: map[string]types.Type{},
		elemTypes: map[string]types.Type{}, maps: map[string]types.Type{}, ghosts: map[string]bool{}, iters: map[*ssa.Range]bool{}}
}

// addrRoot traces an address operand to its root.
func addrRoot(v ssa.Value) (alloc *ssa.Alloc, rootType types.Type, elem bool) {
	for {
		switch a := v.(type) {
		case *ssa.FieldAddr:
			v = a.X
			continue
		case *ssa.IndexAddr:
			if et := sliceElem(a.X.Type()); et != nil {
				return nil, et, true
			}
			if at := arrayOfPtr(a.X.Type()); at != nil {
				return nil, at.Elem(), true
			}
			return nil, nil, false
		case *ssa.Alloc:
			return a, ptrElem(a.Type()), false
		default:
			if p, ok := types.Unalias(v.Type()).Underlying().(*types.Pointer); ok {
				return nil, p.Elem(), false
			}
			return nil, nil, false
		}
	}
}

func (x *Exec) collectEffects(fn *ssa.Function, blocks map[*ssa.BasicBlock]bool, eff *loopEffects, depth int, seen map[*ssa.Function]bool) {
	addWrite := func(addr ssa.Value, inLoopAllocOK bool) {
		al, rt, elem := addrRoot(addr)
		if rt == nil {
			if os.Getenv("GOCV_DEBUG") != "" {
				fmt.Fprintf(os.Stderr, "untraceable write address in %s: %s (%T) type %s\n", fn.Name(), addr.String(), addr, addr.Type())
			}
			eff.unknown = true
			return
		}
		if al != nil && depth == 0 {
			if blocks != nil && blocks[al.Block()] {
				return // allocated inside the loop: fresh every iteration
			}
			if _, isArr := types.Unalias(rt).Underlying().(*types.Array); isArr {
				return
			}
			if al.Heap {
				eff.objs[al] = true
			} else {
				eff.cells[al] = true
			}
			return
		}
		if elem {
			eff.elemTypes[heapTypeKey(rt)] = rt
		} else {
			eff.heapTypes[heapTypeKey(rt)] = rt
		}
	}
	for _, b := range fn.Blocks {
		if blocks != nil && !blocks[b] {
			continue
		}
		for _, in := range b.Instrs {
			switch v := in.(type) {
			case *ssa.Store:
				addWrite(v.Addr, true)
			case *ssa.Next:
				if rg, ok := v.Iter.(*ssa.Range); ok && depth == 0 {
					eff.iters[rg] = true
				}
			case *ssa.MapUpdate:
				eff.maps[heapTypeKey(v.Map.Type())] = v.Map.Type()
			case ssa.CallInstruction:
				c := v.Common()
				if bi, ok := c.Value.(*ssa.Builtin); ok {
					switch bi.Name() {
					case "append":
						if et := sliceElem(c.Args[0].Type()); et != nil {
							// append writes only fresh arrays
						}
					case "delete":
						eff.maps[heapTypeKey(c.Args[0].Type())] = c.Args[0].Type()
					}
					continue
				}
				var callee *ssa.Function
				name := ""
				if c.IsInvoke() {
					name = c.Method.FullName()
				} else if f := c.StaticCallee(); f != nil {
					callee = f
					name = f.String()
				} else if mc, ok := c.Value.(*ssa.MakeClosure); ok {
					callee = mc.Fn.(*ssa.Function)
					name = callee.String()
				}
				if callee != nil {
					if fc := x.P.Specs.Contracts[contractKeyOf(callee)]; fc != nil && !fc.Inline {
						for _, m := range fc.Modifies {
							switch n := m.(type) {
							case SIdent:
								if strings.HasPrefix(n.Name, "$") {
									eff.ghosts[n.Name[1:]] = true
									continue
								}
							}
							// pointer-parameter targets: havoc what the argument points to
							x.effectOfModifiesTarget(callee, fc, m, c, eff, addWrite)
						}
						continue
					}
				}
				if gw, ok := libGhostWrites[normLib(name)]; ok || lookupLib(name) != nil {
					for _, g := range gw {
						eff.ghosts[g] = true
					}
					// out-parameters of library functions (Unmarshal etc.)
					for _, a := range c.Args {
						if _, isPtr := types.Unalias(a.Type()).Underlying().(*types.Pointer); isPtr && libWritesPtrArgs[normLib(name)] {
							addWrite(a, true)
						}
					}
					continue
				}
				if callee != nil && inRepo(callee) && len(callee.Blocks) > 0 && depth < maxInlineDepth && !seen[callee] {
					seen[callee] = true
					x.collectEffects(callee, nil, eff, depth+1, seen)
					// writes through pointer arguments that are local allocs; closures passed as arguments
					for _, a := range c.Args {
						if al, ok := a.(*ssa.Alloc); ok && depth == 0 {
							addWrite(al, true)
						}
						if _, isFn := types.Unalias(a.Type()).Underlying().(*types.Signature); isFn && depth == 0 {
							x.effectsOfFuncValue(fn, a, eff, depth, seen, addWrite)
						}
					}
					if mc, ok := c.Value.(*ssa.MakeClosure); ok {
						for _, bnd := range mc.Bindings {
							if al, ok := bnd.(*ssa.Alloc); ok && depth == 0 {
								addWrite(al, true)
							}
						}
					}
					continue
				}
				if callee == nil && !c.IsInvoke() {
					// a function-valued package variable of a dependency (sdk.ZeroInt = math.ZeroInt, sdk.NewInt, errors.Wrap ...):
					// package-level variables are never reassigned (C11), so this is the call the executor resolves to its library
					// model; the model's ghost writes are its effects
					if u, ok := c.Value.(*ssa.UnOp); ok {
						if g, ok := u.X.(*ssa.Global); ok && g.Pkg != nil && !strings.HasPrefix(g.Pkg.Pkg.Path(), repoModule) {
							gname := "globfn:" + g.Pkg.Pkg.Path() + "." + g.Name()
							for _, gw := range libGhostWrites[normLib(gname)] {
								eff.ghosts[gw] = true
							}
							continue
						}
					}
					// call through a function value: look for closures bound in this function
					if depth == 0 {
						x.effectsOfFuncValue(fn, c.Value, eff, depth, seen, addWrite)
					} else if _, isParam := c.Value.(*ssa.Parameter); isParam {
						// a function-valued parameter: its effects are accounted for where the closure is passed (depth 0)
					} else {
						eff.unknown = true
					}
					continue
				}
				// unmodelled call: noted when executed
			}
		}
	}
}

func (x *Exec) effectsOfFuncValue(fn *ssa.Function, v ssa.Value, eff *loopEffects, depth int, seen map[*ssa.Function]bool, addWrite func(ssa.Value, bool)) {
	switch f := v.(type) {
	case *ssa.MakeClosure:
		callee := f.Fn.(*ssa.Function)
		if !seen[callee] {
			seen[callee] = true
			x.collectEffects(callee, nil, eff, depth+1, seen)
		}
		for _, bnd := range f.Bindings {
			if al, ok := bnd.(*ssa.Alloc); ok {
				addWrite(al, true)
			}
		}
	case *ssa.Function:
		if !seen[f] {
			seen[f] = true
			x.collectEffects(f, nil, eff, depth+1, seen)
		}
	case *ssa.Phi:
		for _, e := range f.Edges {
			x.effectsOfFuncValue(fn, e, eff, depth, seen, addWrite)
		}
	default:
		eff.unknown = true
	}
}

func (x *Exec) effectOfModifiesTarget(callee *ssa.Function, fc *FuncContract, m SExpr, c *ssa.CallCommon, eff *loopEffects, addWrite func(ssa.Value, bool)) {
	// find the root identifier of the target expression
	root := m
	for {
		switch n := root.(type) {
		case SUnary:
			root = n.X
			continue
		case SSelect:
			root = n.X
			continue
		case SCall:
			if len(n.Args) > 0 {
				root = n.Args[0]
				continue
			}
		}
		break
	}
	id, ok := root.(SIdent)
	if !ok {
		eff.unknown = true
		return
	}
	off := 0
	if callee.Signature.Recv() != nil {
		off = 1
		if id.Name == fc.RecvName {
			addWrite(c.Args[0], true)
			return
		}
	}
	for i, p := range fc.Params {
		if p == id.Name && i+off < len(c.Args) {
			a := c.Args[i+off]
			if et := sliceElem(a.Type()); et != nil {
				eff.elemTypes[heapTypeKey(et)] = et
				return
			}
			if _, isMap := types.Unalias(a.Type()).Underlying().(*types.Map); isMap {
				eff.maps[heapTypeKey(a.Type())] = a.Type()
				return
			}
			addWrite(a, true)
			return
		}
	}
	eff.unknown = true
}

// loopCut handles arrival at a loop header. Returns true if execution continues into the body.
func (x *Exec) loopCut(fr *Frame, st *State, b *ssa.BasicBlock, backEdge bool) bool {
	ord := loopOrdinal(b)
	var lc *LoopContract
	if fr.contract != nil {
		lc = fr.contract.Loops[ord]
	}
	label := fmt.Sprintf("%sloop#%d", fr.prefix, ord)
	env := &SpecEnv{x: x, st: st, old: x.pre, vars: map[string]*Val{}, pkg: pkgOfFn(fr.fn)}
	env.resolve = func(name string) *Val { return x.resolveLocal(fr, st, b, name) }
	if fr.contract != nil {
		env.pkg = fr.contract.Pkg
	}
	// engine-supplied invariant of range-over-slice loops: the hidden index stays in [-1, maxInt64)
	// (checked like any other invariant: entry value -1, step idx+1 < len <= maxInt64)
	var rangeIdx *ssa.Phi
	for _, in := range b.Instrs {
		if phi, ok := in.(*ssa.Phi); ok && phi.Comment == "rangeindex" {
			rangeIdx = phi
		}
	}
	autoInv := func(kind string, assume bool) {
		if rangeIdx == nil {
			return
		}
		v := fr.regs[rangeIdx]
		g := And(Ge(v.T, Num(-1)), Lt(v.T, NumStr("9223372036854775807")))
		if assume {
			st.Assume(g)
		} else {
			x.emit(kind, label+":rangeindex-bounds", st, g, "engine-supplied range index bound")
		}
	}
	evalInv := func(kind string) {
		autoInv(kind, false)
		if lc == nil {
			return
		}
		var hints []*Term
		for _, u := range lc.Uses {
			hints = append(hints, x.safeEvalBool(env, u, label+" uses"))
		}
		for i, inv := range lc.Invariants {
			g := x.safeEvalBool(env, inv.E, label+" invariant")
			o := x.emit(kind, fmt.Sprintf("%s:invariant#%d", label, i+1), st, g, inv.Text)
			o.Hyps = append(o.Hyps, hints...)
		}
	}
	if backEdge {
		ctx := fr.loops[b]
		evalInv("inv-step")
		if lc != nil && lc.Decr != nil && ctx != nil && ctx.decr0 != nil {
			d := toInt(env.eval(lc.Decr))
			x.emit("decreases", label, st, And(Ge(ctx.decr0, Num(0)), Lt(d, ctx.decr0)), "loop variant")
		}
		x.paths++
		return false
	}
	if _, again := fr.loops[b]; again {
		// re-entry of an already cut loop on the same path (nested loop re-entered from outer body):
		// treat as a fresh entry
	}
	evalInv("inv-entry")
	// havoc
	body := loopBody(b)
	eff := newLoopEffects()
	x.collectEffects(fr.fn, body, eff, 0, map[*ssa.Function]bool{})
	if eff.unknown {
		x.note("loop in " + fr.fn.Name() + " writes through an untraceable address: whole heap havocked")
		for _, key := range st.heapKeysSorted() {
			st.Heap[key] = Const(freshName("H:"+key), st.Heap[key].Sort)
		}
	}
	for _, in := range b.Instrs {
		phi, ok := in.(*ssa.Phi)
		if !ok {
			break
		}
		cur := fr.regs[phi]
		nv := freshValLike(cur, phi.Type(), "loop:"+phi.Comment)
		for _, wf := range wellFormed(nv) {
			st.Assume(wf)
		}
		x.assumeAllocated(st, nv)
		fr.regs[phi] = nv
	}
	// (in source order: the numbering of fresh names, and with it the obligation text, must not depend on map iteration order)
	for _, al := range sortedAllocs(eff.cells) {
		if p, ok := fr.regs[al]; ok && p.K == VPtr && p.Ptr.Base == PCell {
			nv := x.freshLike(st, &Val{Typ: st.CellTypes[p.Ptr.Cell]}, "cell:"+al.Comment)
			st.Cells[p.Ptr.Cell] = nv
		}
	}
	{
		var its []*ssa.Range
		for rg := range eff.iters {
			its = append(its, rg)
		}
		sort.Slice(its, func(i, j int) bool { return its[i].Pos() < its[j].Pos() })
		for _, rg := range its {
			if it, ok := fr.regs[rg]; ok && it.K == VPtr && it.Ptr != nil && it.Ptr.Base == PCell {
				if cur, ok := st.Cells[it.Ptr.Cell]; ok && cur.K == VArr {
					st.Cells[it.Ptr.Cell] = &Val{K: VArr, T: Const(freshName("loop:yielded"), cur.T.Sort)}
				}
			}
		}
	}
	for _, al := range sortedAllocs(eff.objs) {
		if p, ok := fr.regs[al]; ok && p.K == VPtr && p.Ptr.Base == PObj {
			t := ptrElem(al.Type())
			nv := x.freshLike(st, &Val{Typ: t}, "obj:"+al.Comment)
			_ = st.storeObj(t, p.T, "", nv)
		}
	}
	for _, t := range sortedTypes(eff.heapTypes) {
		for _, l := range flatten(t) {
			key, h := st.heapArr(t, l, false)
			st.Heap[key] = Const(freshName("H:"+key), h.Sort)
		}
	}
	for _, t := range sortedTypes(eff.elemTypes) {
		for _, l := range flatten(t) {
			key, h := st.heapArr(t, l, true)
			nh := Const(freshName("H:"+key), h.Sort)
			// arrays allocated before the loop and not reachable for writing keep their rows only if
			// the invariant says so; fresh arrays created inside the loop are unconstrained
			st.Heap[key] = nh
		}
	}
	for _, t := range sortedTypes(eff.maps) {
		if hk, has, ok := x.mapArrays(st, t); ok {
			st.Heap[hk] = Const(freshName("H:"+hk), has.Sort)
			_, et := mapTypes(t)
			for _, l := range flatten(et) {
				key, arr := x.mapValArr(st, t, l)
				st.Heap[key] = Const(freshName("H:"+key), arr.Sort)
			}
		}
	}
	var gs []string
	for g := range eff.ghosts {
		gs = append(gs, g)
	}
	sort.Strings(gs)
	for _, g := range gs {
		if cur, ok := st.Ghost[g]; ok {
			st.Ghost[g] = x.freshLike(st, cur, "ghost:"+g)
		}
	}
	// allocation counter may have advanced arbitrarily
	nr := Const(freshName("ref:next"), SInt)
	st.Assume(Ge(nr, st.NextRef))
	st.NextRef = nr
	st.assumeHeapWF()
	ctx := &loopCtx{}
	autoInv("", true)
	if lc != nil {
		env2 := *env
		env2.st = st
		for _, inv := range lc.Invariants {
			st.Assume(x.safeEvalBool(&env2, inv.E, label+" invariant"))
		}
		// lemma instances named by the loop contract (validated at load time to be lemma applications only) also hold
		// at the loop head of an arbitrary iteration
		for _, u := range lc.Uses {
			st.Assume(x.safeEvalBool(&env2, u, label+" uses"))
		}
		if lc.Decr != nil {
			ctx.decr0 = toInt(env2.eval(lc.Decr))
		}
	} else if fr.depth == 0 {
		x.note(fmt.Sprintf("loop #%d of %s has no invariant (treated as true)", ord, fr.fn.Name()))
	}
	fr.loops[b] = ctx
	return true
}

func freshValLike(cur *Val, t types.Type, name string) *Val {
	nv := freshVal(t, name, true)
	if cur != nil && cur.K == VPtr && nv.K == VPtr && (cur.Ptr.Base != PObj || len(cur.Ptr.Path) != 0) {
		// interior pointers carried around a loop are not modelled
		return nv
	}
	if cur != nil && cur.K == VFunc {
		return cur
	}
	return nv
}

func sortedAllocs(m map[*ssa.Alloc]bool) []*ssa.Alloc {
	var out []*ssa.Alloc
	for a := range m {
		out = append(out, a)
	}
	sort.Slice(out, func(i, j int) bool {
		if out[i].Pos() != out[j].Pos() {
			return out[i].Pos() < out[j].Pos()
		}
		if out[i].Comment != out[j].Comment {
			return out[i].Comment < out[j].Comment
		}
		return out[i].Name() < out[j].Name()
	})
	return out
}

func sortedTypes(m map[string]types.Type) []types.Type {
	var ks []string
	for k := range m {
		ks = append(ks, k)
	}
	sort.Strings(ks)
	var out []types.Type
	for _, k := range ks {
		out = append(out, m[k])
	}
	return out
}

func pkgOfFn(fn *ssa.Function) string {
	for f := fn; f != nil; f = f.Parent() {
		if f.Pkg != nil {
			return f.Pkg.Pkg.Path()
		}
	}
	return ""
}

// countedLoopVar: the unique integer phi of loop header b whose entry value is the constant 0 and whose back-edge value is
// itself plus the constant 1 (nil when there is none or more than one).
func countedLoopVar(b *ssa.BasicBlock) *ssa.Phi {
	var found *ssa.Phi
	for _, in := range b.Instrs {
		phi, ok := in.(*ssa.Phi)
		if !ok {
			break
		}
		if bt, ok := phi.Type().Underlying().(*types.Basic); !ok || bt.Info()&types.IsInteger == 0 {
			continue
		}
		zero, step := false, false
		for _, e := range phi.Edges {
			if c, ok := e.(*ssa.Const); ok && c.Value != nil && c.Value.String() == "0" {
				zero = true
				continue
			}
			if bo, ok := e.(*ssa.BinOp); ok && bo.Op == token.ADD && bo.X == phi {
				if c, ok := bo.Y.(*ssa.Const); ok && c.Value != nil && c.Value.String() == "1" {
					step = true
					continue
				}
			}
			zero, step = false, false
			break
		}
		if zero && step && len(phi.Edges) == 2 {
			if found != nil {
				return nil
			}
			found = phi
		}
	}
	return found
}

// resolveLocal maps a source-level name to its current value at block b.
func (x *Exec) resolveLocal(fr *Frame, st *State, b *ssa.BasicBlock, name string) *Val {
	if name == "\\i" {
		for _, in := range b.Instrs {
			if phi, ok := in.(*ssa.Phi); ok && phi.Comment == "rangeindex" {
				v := fr.regs[phi]
				return &Val{K: VInt, T: Add(v.T, Num(1))}
			}
		}
		// a counted loop `for i := 0; ...; i++`: its induction variable is the number of completed iterations (the contract then
		// survives a rewrite of the range loop as an indexed loop)
		if phi := countedLoopVar(b); phi != nil {
			return fr.regs[phi]
		}
		sfail("\\i used in a loop that is neither a range-over-slice loop nor a loop counting up from 0 by 1")
	}
	if name == "\\yielded" {
		// the set of keys the map iterator of this loop has yielded so far
		for _, in := range b.Instrs {
			if nx, ok := in.(*ssa.Next); ok {
				if rg, ok := nx.Iter.(*ssa.Range); ok {
					if it, ok := fr.regs[rg]; ok && it.K == VPtr && it.Ptr != nil && it.Ptr.Base == PCell {
						if cur, ok := st.Cells[it.Ptr.Cell]; ok {
							return cur
						}
					}
				}
			}
		}
		sfail("\\yielded used in a loop that does not range over a map")
	}
	if name == "\\o" {
		// the number of completed iterations of the nearest enclosing range-over-slice loop
		for blk := b.Idom(); blk != nil; blk = blk.Idom() {
			for _, in := range blk.Instrs {
				if phi, ok := in.(*ssa.Phi); ok && phi.Comment == "rangeindex" {
					if v, ok := fr.regs[phi]; ok {
						return &Val{K: VInt, T: Add(v.T, Num(1))}
					}
				}
			}
		}
		sfail("\\o used in a loop that is not nested in a range-over-slice loop")
	}
	for _, in := range b.Instrs {
		if phi, ok := in.(*ssa.Phi); ok && phi.Comment == name {
			return fr.regs[phi]
		}
	}
	for _, p := range fr.fn.Params {
		if p.Name() == name {
			return fr.regs[p]
		}
	}
	for _, fv := range fr.fn.FreeVars {
		if fv.Name() == name {
			if v, ok := fr.regs[fv]; ok && v.K == VPtr {
				return x.loadNoCheck(st, v)
			}
		}
	}
	// nearest dominating definition: walk the dominator chain upward, instructions in reverse
	for blk := b; blk != nil; blk = blk.Idom() {
		instrs := blk.Instrs
		for k := len(instrs) - 1; k >= 0; k-- {
			in := instrs[k]
			if blk == b {
				if _, isPhi := in.(*ssa.Phi); !isPhi {
					continue
				}
			}
			switch v := in.(type) {
			case *ssa.Phi:
				if v.Comment == name {
					if val, ok := fr.regs[v]; ok {
						return val
					}
				}
			case *ssa.DebugRef:
				if v.Object() != nil && v.Object().Name() == name {
					if !v.IsAddr {
						// an address-taken variable lives in its cell: the value named by an assignment's debug
						// reference may be stale, read the cell instead
						if cell := allocOfObject(fr.fn, v.Object()); cell != nil {
							if cv, ok := fr.regs[cell]; ok && cv.K == VPtr {
								return x.loadNoCheck(st, cv)
							}
						}
					}
					if val, ok := fr.regs[v.X]; ok {
						if v.IsAddr {
							if val.K == VPtr {
								return x.loadNoCheck(st, val)
							}
						} else {
							return val
						}
					}
				}
			case *ssa.Alloc:
				if v.Comment == name {
					if val, ok := fr.regs[v]; ok && val.K == VPtr {
						return x.loadNoCheck(st, val)
					}
				}
			}
		}
	}
	return nil
}

// allocOfObject finds the cell of an address-taken source variable: the Alloc some debug reference names as its address.
func allocOfObject(fn *ssa.Function, obj types.Object) ssa.Value {
	for _, b := range fn.Blocks {
		for _, in := range b.Instrs {
			if d, ok := in.(*ssa.DebugRef); ok && d.IsAddr && d.Object() == obj {
				if a, ok := d.X.(*ssa.Alloc); ok {
					return a
				}
			}
		}
	}
	// named results and captured variables have no address debug reference: match the Alloc by name and type
	if v, ok := obj.(*types.Var); ok {
		for _, b := range fn.Blocks {
			for _, in := range b.Instrs {
				if a, ok := in.(*ssa.Alloc); ok && a.Comment == obj.Name() && a.Pos() == v.Pos() {
					return a
				}
			}
		}
	}
	return nil
}
