package main

import (
	"fmt"
	"sort"
	"strings"

	"golang.org/x/tools/go/ssa"
)

// cmdSurface lists external callees of the repo's functions that have no library model.
func cmdSurface(p *Program, filter string) {
	cnt := map[string]int{}
	users := map[string]map[string]bool{}
	var visit func(fn *ssa.Function)
	seen := map[*ssa.Function]bool{}
	visit = func(fn *ssa.Function) {
		if seen[fn] {
			return
		}
		seen[fn] = true
		for _, b := range fn.Blocks {
			for _, in := range b.Instrs {
				if mc, ok := in.(*ssa.MakeClosure); ok {
					visit(mc.Fn.(*ssa.Function))
				}
				ci, ok := in.(ssa.CallInstruction)
				if !ok {
					continue
				}
				c := ci.Common()
				name := ""
				if c.IsInvoke() {
					name = c.Method.FullName()
					if namedInRepo(c.Value.Type()) {
						continue
					}
				} else if f := c.StaticCallee(); f != nil {
					if inRepo(f) {
						continue
					}
					name = f.String()
				} else if _, ok := c.Value.(*ssa.Builtin); ok {
					continue
				} else {
					name = "dynamic:" + c.Value.String()
					if u, ok := c.Value.(*ssa.UnOp); ok {
						if g, ok := u.X.(*ssa.Global); ok {
							name = "globfn:" + g.Pkg.Pkg.Path() + "." + g.Name()
						}
					}
				}
				if lookupLib(name) != nil {
					continue
				}
				cnt[name]++
				if users[name] == nil {
					users[name] = map[string]bool{}
				}
				users[name][fn.Name()] = true
			}
		}
	}
	for key, fn := range p.Funcs {
		if filter != "" && !strings.Contains(key, filter) {
			continue
		}
		if strings.Contains(key, "/simulation") || strings.Contains(key, "/client/") || strings.Contains(key, "testutil") {
			continue
		}
		if strings.HasSuffix(fn.Prog.Fset.Position(fn.Pos()).Filename, ".pb.go") || strings.HasSuffix(fn.Prog.Fset.Position(fn.Pos()).Filename, ".pb.gw.go") {
			continue
		}
		visit(fn)
	}
	var names []string
	for n := range cnt {
		names = append(names, n)
	}
	sort.Slice(names, func(i, j int) bool { return cnt[names[i]] > cnt[names[j]] })
	for _, n := range names {
		var us []string
		for u := range users[n] {
			us = append(us, u)
		}
		sort.Strings(us)
		if len(us) > 4 {
			us = append(us[:4], "...")
		}
		fmt.Printf("%4d %s   <- %s\n", cnt[n], n, strings.Join(us, ","))
	}
}
