package main

// Library model, part 4: x/auth accounts (cosmos-sdk v0.46.10), assumed contract.
//
// Abstract state, per address (raw address bytes as Str):
//   $accTag [str]int   0 = no account; else the type id of the stored account's concrete type
//   $accNum, $accSeq, $accPub [str]int    account number, sequence, public-key identity (0 = none)
//   $accOV, $accDF, $accDV [str][str]int  original vesting / delegated free / delegated vesting (vesting accounts)
//   $accStart, $accEnd [str]int           vesting schedule (Unix seconds)
//   $accNextNum int                       next account number
// GetAccount returns a fresh decoded copy; SetAccount overwrites the record of acc.GetAddress().
// SetAccount carries property C09 as a call-site obligation (kind pre): the address has no account, or the
// stored account is a ContinuousVestingAccount and the new value differs from it only by a pointwise smaller
// OriginalVesting.

import (
	"go/types"
	"strings"
)

const (
	pAuthT = "github.com/cosmos/cosmos-sdk/x/auth/types"
	pVestT = "github.com/cosmos/cosmos-sdk/x/auth/vesting/types"
)

func init() {
	for _, g := range []struct{ n, t string }{
		{"accTag", "[str]int"}, {"accNum", "[str]int"}, {"accSeq", "[str]int"}, {"accPub", "[str]int"},
		{"accOV", "[str][str]int"}, {"accDF", "[str][str]int"}, {"accDV", "[str][str]int"},
		{"accStart", "[str]int"}, {"accEnd", "[str]int"}, {"accNextNum", "int"}, {"accModName", "[str]str"},
	} {
		builtinGhosts = append(builtinGhosts, &GhostVar{Name: g.n, Type: g.t, Pkg: "builtin"})
	}
}

func (p *Program) depType(path, name string) types.Type {
	var found types.Type
	seen := map[*types.Package]bool{}
	var visit func(pk *types.Package)
	visit = func(pk *types.Package) {
		if seen[pk] || found != nil {
			return
		}
		seen[pk] = true
		if pk.Path() == path {
			if o := pk.Scope().Lookup(name); o != nil {
				found = o.Type()
			}
			return
		}
		for _, imp := range pk.Imports() {
			visit(imp)
		}
	}
	for _, pk := range p.Pkgs {
		visit(pk.Types)
	}
	return found
}

type authTypes struct {
	base, bva, cva, mod types.Type // struct types
}

func (x *Exec) authTypes() *authTypes {
	if x.authT != nil {
		return x.authT
	}
	x.authT = &authTypes{
		base: x.P.depType(pAuthT, "BaseAccount"),
		bva:  x.P.depType(pVestT, "BaseVestingAccount"),
		cva:  x.P.depType(pVestT, "ContinuousVestingAccount"),
		mod:  x.P.depType(pAuthT, "ModuleAccount"),
	}
	return x.authT
}

func setField(v *Val, name string, nv *Val) {
	i, ok := fieldIndex(v.Typ, name)
	if !ok {
		panic("setField: no field " + name + " in " + typeString(v.Typ))
	}
	v.Fields[i] = nv
}

func getField(v *Val, name string) *Val {
	i, ok := fieldIndex(v.Typ, name)
	if !ok {
		panic("getField: no field " + name + " in " + typeString(v.Typ))
	}
	return v.Fields[i]
}

func ptrTo(t types.Type, ref *Term) *Val {
	return &Val{K: VPtr, Typ: types.NewPointer(t), T: ref, Ptr: &PtrInfo{Base: PObj, Root: t}}
}

func gsel(c *LibCtx, name string, addr *Term) *Term { return Select(ghostT(c.st, name), addr) }

// materialize builds fresh heap objects holding the account stored at addr and returns the AccountI value.
func authMaterialize(c *LibCtx, addr *Term, ifaceT types.Type) *Val {
	at := c.x.authTypes()
	tag := gsel(c, "accTag", addr)
	// base account object
	mkBase := func() *Term {
		r := c.st.alloc()
		b := zeroVal(at.base)
		setField(b, "Address", strVal(UF("toBech32", []string{SStr}, SStr, addr), getField(b, "Address").Typ))
		pk := getField(b, "PubKey")
		setField(b, "PubKey", &Val{K: VPtr, Typ: pk.Typ, T: gsel(c, "accPub", addr), Ptr: &PtrInfo{Base: PObj, Root: ptrElem(pk.Typ)}})
		setField(b, "AccountNumber", intVal(gsel(c, "accNum", addr), getField(b, "AccountNumber").Typ))
		setField(b, "Sequence", intVal(gsel(c, "accSeq", addr), getField(b, "Sequence").Typ))
		_ = c.st.storeObj(at.base, r, "", b)
		return r
	}
	rBase := mkBase()
	// continuous vesting account: cva -> bva -> base
	rb2 := mkBase()
	rBva := c.st.alloc()
	bva := zeroVal(at.bva)
	setField(bva, "BaseAccount", ptrTo(at.base, rb2))
	setField(bva, "OriginalVesting", coinsVal(gsel(c, "accOV", addr), getField(bva, "OriginalVesting").Typ))
	setField(bva, "DelegatedFree", coinsVal(gsel(c, "accDF", addr), getField(bva, "DelegatedFree").Typ))
	setField(bva, "DelegatedVesting", coinsVal(gsel(c, "accDV", addr), getField(bva, "DelegatedVesting").Typ))
	setField(bva, "EndTime", intVal(gsel(c, "accEnd", addr), getField(bva, "EndTime").Typ))
	_ = c.st.storeObj(at.bva, rBva, "", bva)
	rCva := c.st.alloc()
	cva := zeroVal(at.cva)
	setField(cva, "BaseVestingAccount", ptrTo(at.bva, rBva))
	setField(cva, "StartTime", intVal(gsel(c, "accStart", addr), getField(cva, "StartTime").Typ))
	_ = c.st.storeObj(at.cva, rCva, "", cva)
	// module account: mod -> base
	rb3 := mkBase()
	rMod := c.st.alloc()
	mod := zeroVal(at.mod)
	setField(mod, "BaseAccount", ptrTo(at.base, rb3))
	setField(mod, "Name", strVal(gsel(c, "accModName", addr), getField(mod, "Name").Typ))
	_ = c.st.storeObj(at.mod, rMod, "", mod)
	rOther := c.st.alloc()
	idBase, idCva, idMod := Num(int64(typeID(types.NewPointer(at.base)))), Num(int64(typeID(types.NewPointer(at.cva)))), Num(int64(typeID(types.NewPointer(at.mod))))
	pl := Ite(Eq(tag, idBase), rBase, Ite(Eq(tag, idCva), rCva, Ite(Eq(tag, idMod), rMod, rOther)))
	c.st.Assume(Ge(tag, Num(0)))
	// well-formed vesting records
	return &Val{K: VIface, Typ: ifaceT, Tag: tag, T: c.x.defineAlways(c.st, pl, "acc")}
}

// accView reads (address, num, seq, pub, ov, df, dv, start, end) of an account interface value by dynamic type.
type accRecord struct {
	addr, num, seq, pub, ov, df, dv, start, end, modName *Term
	isCva, isBase, isMod                                  *Term
}

func authView(c *LibCtx, acc *Val) accRecord {
	at := c.x.authTypes()
	idBase, idCva, idMod := Num(int64(typeID(types.NewPointer(at.base)))), Num(int64(typeID(types.NewPointer(at.cva)))), Num(int64(typeID(types.NewPointer(at.mod))))
	isBase, isCva, isMod := Eq(acc.Tag, idBase), Eq(acc.Tag, idCva), Eq(acc.Tag, idMod)
	st := c.st
	baseAt := func(r *Term) *Val { return st.loadObj(at.base, r, "", at.base) }
	// as base
	b1 := baseAt(acc.T)
	// as cva
	cva := st.loadObj(at.cva, acc.T, "", at.cva)
	bva := st.loadObj(at.bva, getField(cva, "BaseVestingAccount").T, "", at.bva)
	b2 := baseAt(getField(bva, "BaseAccount").T)
	// as module
	mod := st.loadObj(at.mod, acc.T, "", at.mod)
	b3 := baseAt(getField(mod, "BaseAccount").T)
	pick := func(f func(b *Val) *Term) *Term {
		return Ite(isBase, f(b1), Ite(isCva, f(b2), f(b3)))
	}
	return accRecord{
		addr:    UF("fromBech32", []string{SStr}, SStr, pick(func(b *Val) *Term { return getField(b, "Address").T })),
		num:     pick(func(b *Val) *Term { return getField(b, "AccountNumber").T }),
		seq:     pick(func(b *Val) *Term { return getField(b, "Sequence").T }),
		pub:     pick(func(b *Val) *Term { return getField(b, "PubKey").T }),
		ov:      getField(bva, "OriginalVesting").T,
		df:      getField(bva, "DelegatedFree").T,
		dv:      getField(bva, "DelegatedVesting").T,
		start:   getField(cva, "StartTime").T,
		end:     getField(bva, "EndTime").T,
		modName: getField(mod, "Name").T,
		isCva:   isCva, isBase: isBase, isMod: isMod,
	}
}

func init() {
	A := "keeper:AccountKeeper."
	reg(A+"GetAccount", func(c *LibCtx, a []*Val) *Val {
		acc := authMaterialize(c, a[2].T, c.resType(0))
		return acc
	})
	reg(A+"NewAccountWithAddress", func(c *LibCtx, a []*Val) *Val {
		at := c.x.authTypes()
		r := c.st.alloc()
		b := zeroVal(at.base)
		setField(b, "Address", strVal(UF("toBech32", []string{SStr}, SStr, a[2].T), getField(b, "Address").Typ))
		n := ghostT(c.st, "accNextNum")
		setField(b, "AccountNumber", intVal(n, getField(b, "AccountNumber").Typ))
		c.st.Assume(And(Ge(n, Num(0)), Lt(n, NumStr("18446744073709551615"))))
		c.st.Ghost["accNextNum"] = valOfSort(Add(n, Num(1)))
		_ = c.st.storeObj(at.base, r, "", b)
		// the bech32 round trip of a valid address
		c.st.Assume(Eq(UF("fromBech32", []string{SStr}, SStr, UF("toBech32", []string{SStr}, SStr, a[2].T)), a[2].T))
		return &Val{K: VIface, Typ: c.resType(0), Tag: Num(int64(typeID(types.NewPointer(at.base)))), T: r}
	})
	libGhostWrites[A+"NewAccountWithAddress"] = []string{"accNextNum"}
	setAccount := func(c *LibCtx, a []*Val) *Val {
		acc := a[2]
		if acc.K != VIface {
			c.x.note("SetAccount with an unmodelled account value")
			return nil
		}
		c.panicIf(Eq(acc.Tag, Num(0)), "SetAccount-nil-account")
		v := authView(c, acc)
		addr := c.x.defineAlways(c.st, v.addr, "setacc")
		oldTag := gsel(c, "accTag", addr)
		// ---- C09 obligation: never replace or alter an existing account, except shrinking OriginalVesting ----
		d := Bound("d", SStr)
		shrink := And(v.isCva, Eq(oldTag, acc.Tag),
			Eq(gsel(c, "accNum", addr), v.num), Eq(gsel(c, "accSeq", addr), v.seq), Eq(gsel(c, "accPub", addr), v.pub),
			Eq(gsel(c, "accStart", addr), v.start), Eq(gsel(c, "accEnd", addr), v.end),
			Eq(gsel(c, "accDF", addr), v.df), Eq(gsel(c, "accDV", addr), v.dv),
			Forall([]*Term{d}, Le(Select(v.ov, d), Select(gsel(c, "accOV", addr), d)), []*Term{Select(v.ov, d)}))
		if !c.x.noC09 {
			lbl := c.x.siteLabel(c.fr, c.in, instrWhat(c.in))
			c.x.emit("pre", lbl+":account-absent-or-own-vesting-reduced", c.st, Or(Eq(oldTag, Num(0)), shrink),
				"C09: SetAccount only on an address without account, or reducing the OriginalVesting of the same ContinuousVestingAccount")
		}
		upd := func(name string, val *Term) {
			arr := ghostT(c.st, name)
			setGhostT(c, name, Store(arr, addr, val))
		}
		upd("accTag", acc.Tag)
		upd("accNum", v.num)
		upd("accSeq", v.seq)
		upd("accPub", v.pub)
		upd("accOV", Ite(v.isCva, v.ov, gsel(c, "accOV", addr)))
		upd("accDF", Ite(v.isCva, v.df, gsel(c, "accDF", addr)))
		upd("accDV", Ite(v.isCva, v.dv, gsel(c, "accDV", addr)))
		upd("accStart", Ite(v.isCva, v.start, gsel(c, "accStart", addr)))
		upd("accEnd", Ite(v.isCva, v.end, gsel(c, "accEnd", addr)))
		return nil
	}
	reg(A+"SetAccount", setAccount)
	reg("(github.com/cosmos/cosmos-sdk/x/auth/keeper.AccountKeeper).SetAccount", setAccount)
	for _, n := range []string{A + "SetAccount", "(github.com/cosmos/cosmos-sdk/x/auth/keeper.AccountKeeper).SetAccount"} {
		libGhostWrites[n] = []string{"accTag", "accNum", "accSeq", "accPub", "accOV", "accDF", "accDV", "accStart", "accEnd"}
	}
	reg("(github.com/cosmos/cosmos-sdk/x/auth/keeper.AccountKeeper).GetAccount", func(c *LibCtx, a []*Val) *Val {
		return authMaterialize(c, a[2].T, c.resType(0))
	})
	reg(A+"GetModuleAccount", func(c *LibCtx, a []*Val) *Val {
		// nil iff the module has no entry in maccPerms
		at := c.x.authTypes()
		addr := modAddr(a[2].T)
		acc := authMaterialize(c, addr, c.resType(0))
		exists := UF("moduleExists", []string{SStr}, SBool, a[2].T)
		idMod := Num(int64(typeID(types.NewPointer(at.mod))))
		r := *acc
		r.Tag = Ite(exists, idMod, Num(0))
		c.st.Assume(Implies(exists, Eq(gsel(c, "accTag", addr), idMod)))
		return &r
	})
	reg(A+"GetModuleAddress", func(c *LibCtx, a []*Val) *Val { return strVal(modAddr(a[1].T), c.resType(0)) })

	// ---- methods of account values ----
	AI := "(" + pAuthT + ".AccountI)."
	viewOf := func(c *LibCtx, a []*Val) accRecord {
		c.panicIf(Eq(a[0].Tag, Num(0)), "nil-account-method")
		return authView(c, a[0])
	}
	reg(AI+"GetAddress", func(c *LibCtx, a []*Val) *Val { return strVal(viewOf(c, a).addr, c.resType(0)) })
	reg(AI+"GetAccountNumber", func(c *LibCtx, a []*Val) *Val { return intVal(viewOf(c, a).num, c.resType(0)) })
	reg(AI+"GetSequence", func(c *LibCtx, a []*Val) *Val { return intVal(viewOf(c, a).seq, c.resType(0)) })
	reg(AI+"GetPubKey", func(c *LibCtx, a []*Val) *Val {
		v := viewOf(c, a)
		r := freshVal(c.resType(0), "pubkey", true)
		c.st.Assume(Eq(Eq(r.Tag, Num(0)), Eq(v.pub, Num(0))))
		return r
	})
	reg(AI+"SetPubKey", func(c *LibCtx, a []*Val) *Val {
		c.x.note("AccountI.SetPubKey: the new key identity is abstract")
		c.panicIf(Eq(a[0].Tag, Num(0)), "nil-account-method")
		// writes the base account's PubKey; modelled as a fresh key identity (nil key -> nil)
		at := c.x.authTypes()
		nk := Const(freshName("pubkeyref"), SInt)
		c.st.Assume(Ge(nk, Num(0)))
		if a[1].K == VIface {
			c.st.Assume(Eq(Eq(nk, Num(0)), Eq(a[1].Tag, Num(0))))
		}
		i, _ := fieldIndex(at.base, "PubKey")
		pk := zeroVal(at.base).Fields[i]
		_ = c.st.storeObj(at.base, a[0].T, ".1", &Val{K: VPtr, Typ: pk.Typ, T: nk, Ptr: &PtrInfo{Base: PObj, Root: ptrElem(pk.Typ)}})
		return freshErr(c, "setPubKeyErr")
	})
	reg(AI+"String", func(c *LibCtx, a []*Val) *Val {
		// BaseAccount.String() (v0.46.10) marshals to YAML with an empty interface registry and then asserts the
		// result to string: it panics exactly when the account has a public key set.
		v := viewOf(c, a)
		c.panicIf(Neq(v.pub, Num(0)), "BaseAccount.String-with-pubkey")
		return strVal(Const(freshName("accstr"), SStr), c.resType(0))
	})

	// ---- constructors ----
	reg(pVestT+".NewBaseVestingAccount", func(c *LibCtx, a []*Val) *Val {
		at := c.x.authTypes()
		r := c.st.alloc()
		b := zeroVal(at.bva)
		setField(b, "BaseAccount", a[0])
		setField(b, "OriginalVesting", coinsVal(a[1].T, getField(b, "OriginalVesting").Typ))
		setField(b, "DelegatedFree", coinsVal(zeroCoinsT, getField(b, "DelegatedFree").Typ))
		setField(b, "DelegatedVesting", coinsVal(zeroCoinsT, getField(b, "DelegatedVesting").Typ))
		setField(b, "EndTime", intVal(a[2].T, getField(b, "EndTime").Typ))
		if err := c.st.storeObj(at.bva, r, "", b); err != nil {
			c.x.note(err.Error())
		}
		return ptrTo(at.bva, r)
	})
	reg(pVestT+".NewContinuousVestingAccountRaw", func(c *LibCtx, a []*Val) *Val {
		at := c.x.authTypes()
		r := c.st.alloc()
		v := zeroVal(at.cva)
		setField(v, "BaseVestingAccount", a[0])
		setField(v, "StartTime", intVal(a[1].T, getField(v, "StartTime").Typ))
		if err := c.st.storeObj(at.cva, r, "", v); err != nil {
			c.x.note(err.Error())
		}
		return ptrTo(at.cva, r)
	})
	_ = strings.HasPrefix
}

// ---- ContinuousVestingAccount schedule arithmetic (x/auth/vesting/types/vesting_account.go, v0.46.10) ----

type cvaView struct{ ov, dv, start, end *Term }

func cvaOf(c *LibCtx, v *Val) (cvaView, bool) {
	at := c.x.authTypes()
	if v.K == VPtr {
		c.x.nilCheck(c.fr, c.st, c.in, v)
		v = c.x.loadNoCheck(c.st, v)
	}
	if v.K != VStruct {
		return cvaView{}, false
	}
	bp := getField(v, "BaseVestingAccount")
	c.x.nilCheck(c.fr, c.st, c.in, bp)
	bva := c.st.loadObj(at.bva, bp.T, "", at.bva)
	return cvaView{ov: getField(bva, "OriginalVesting").T, dv: getField(bva, "DelegatedVesting").T, start: getField(v, "StartTime").T, end: getField(bva, "EndTime").T}, true
}

// vestedAmount: the amount vested at tUnix, as an application of the function cvaVested; its definition (vestedAmountDef) is
// supplied per obligation: as an equation for every ground application and as a quantified axiom for the others.
func vestedAmount(ov, start, end, tUnix *Term) *Term {
	return UF("cvaVested", []string{SInt, SInt, SInt, SInt}, SInt, ov, start, end, tUnix)
}

func vestedAmountDef(ov, start, end, tUnix *Term) *Term {
	x := Sub(tUnix, start)
	y := Sub(end, start)
	s := ChopRound(TQuo(Mul(Mul(Mul(x, P18), P18), P18), Mul(y, P18)))
	mid := ChopRound(ChopRound(Mul(Mul(ov, P18), s)))
	return Ite(Le(tUnix, start), Num(0), Ite(Ge(tUnix, end), ov, mid))
}

func init() {
	C := "(" + pVestT + ".ContinuousVestingAccount)."
	vested := func(c *LibCtx, cv cvaView, t *Term) *Term {
		tU := DivC(t, Num(1000000000))
		return coinsPointwise(c, "vested", func(d *Term) *Term { return vestedAmount(Select(cv.ov, d), cv.start, cv.end, tU) })
	}
	vesting := func(c *LibCtx, cv cvaView, t *Term) *Term {
		ve := vested(c, cv, t)
		r := coinsPointwise(c, "vesting", func(d *Term) *Term { return Sub(Select(cv.ov, d), Select(ve, d)) })
		c.panicIf(Not(coinsAllGE0(r)), "Coins.Sub-negative-result")
		return r
	}
	reg(C+"GetVestedCoins", func(c *LibCtx, a []*Val) *Val {
		cv, ok := cvaOf(c, a[0])
		if !ok {
			c.x.note("GetVestedCoins on an unmodelled receiver")
			return coinsVal(Const(freshName("coins"), sortStrArrInt), c.resType(0))
		}
		return coinsVal(vested(c, cv, a[1].T), c.resType(0))
	})
	reg(C+"GetVestingCoins", func(c *LibCtx, a []*Val) *Val {
		cv, ok := cvaOf(c, a[0])
		if !ok {
			c.x.note("GetVestingCoins on an unmodelled receiver")
			return coinsVal(Const(freshName("coins"), sortStrArrInt), c.resType(0))
		}
		return coinsVal(vesting(c, cv, a[1].T), c.resType(0))
	})
	reg(C+"LockedCoins", func(c *LibCtx, a []*Val) *Val {
		cv, ok := cvaOf(c, a[0])
		if !ok {
			c.x.note("LockedCoins on an unmodelled receiver")
			return coinsVal(Const(freshName("coins"), sortStrArrInt), c.resType(0))
		}
		vg := vesting(c, cv, a[1].T)
		return coinsVal(coinsPointwise(c, "locked", func(d *Term) *Term {
			v, dv := Select(vg, d), Select(cv.dv, d)
			return Sub(v, Ite(Le(v, dv), v, dv))
		}), c.resType(0))
	})
}
