package main

// Library model, part 3: KV stores and the binary codec (cosmos-sdk v0.46.10 store/prefix, store/types, codec).
//
// Abstract state:  $kvHas [str][str]bool, $kvVal [str][str]str  — per store name, per full key.
// A store handle is (store name, accumulated prefix). Get returns nil iff the key is absent; a stored
// value is never nil (Set panics on nil), an empty non-nil value stays "present".
// Codec: Marshal is an injective function of the message's leaves for messages without reference
// fields (exact round trip); for messages holding slices/pointers the encoding is a function of the
// abstract deep value snap(v) and Unmarshal yields a fresh value with the same snap (contents not
// reconstructed: callers that need fields use the typed accessor contracts).

import (
	"go/types"
	"sort"
	"strings"
)

type kvHandle struct {
	name   *Term
	prefix *Term
}

func init() {
	builtinGhosts = append(builtinGhosts, &GhostVar{Name: "kvHas", Type: "[str][str]bool", Pkg: "builtin"}, &GhostVar{Name: "kvVal", Type: "[str][str]str", Pkg: "builtin"})
}

func strCatS(a, b *Term) *Term {
	if sameTerm(a, emptyStr) {
		return b
	}
	if sameTerm(b, emptyStr) {
		return a
	}
	return StrCat(a, b)
}

func (x *Exec) handleOf(v *Val) (kvHandle, bool) {
	if v == nil {
		return kvHandle{}, false
	}
	if v.K == VIface && v.T != nil && v.T.K == TConst {
		h, ok := x.kvHandles[v.T.Op]
		return h, ok
	}
	// prefix.Store struct value: {parent KVStore, prefix []byte}
	if v.K == VStruct && len(v.Fields) == 2 {
		if ph, ok := x.handleOf(v.Fields[0]); ok && v.Fields[1].K == VStr {
			return kvHandle{ph.name, strCatS(ph.prefix, v.Fields[1].T)}, true
		}
	}
	return kvHandle{}, false
}

func (x *Exec) newHandle(c *LibCtx, name, prefix *Term, typ types.Type) *Val {
	if x.kvHandles == nil {
		x.kvHandles = map[string]kvHandle{}
	}
	t := Const(freshName("kvstore"), SInt)
	x.kvHandles[t.Op] = kvHandle{name, prefix}
	c.st.Assume(Gt(t, Num(0)))
	return &Val{K: VIface, Typ: typ, Tag: Num(int64(typeIDByName("kvstore-handle"))), T: t}
}

func typeIDByName(n string) int {
	k := "synthetic:" + n
	if id, ok := typeIDs[k]; ok {
		return id
	}
	id := len(typeIDs) + 1
	typeIDs[k] = id
	return id
}

func kvGet(c *LibCtx, h kvHandle, key *Term) *Term {
	full := strCatS(h.prefix, key)
	has := Select(Select(ghostT(c.st, "kvHas"), h.name), full)
	val := Select(Select(ghostT(c.st, "kvVal"), h.name), full)
	// store invariant: a stored value is never nil (Set panics on a nil value)
	c.st.Assume(Implies(has, Neq(val, bytesNil)))
	return Ite(has, val, bytesNil)
}

func kvSet(c *LibCtx, h kvHandle, key, val *Term) {
	full := strCatS(h.prefix, key)
	hasA, valA := ghostT(c.st, "kvHas"), ghostT(c.st, "kvVal")
	setGhostT(c, "kvHas", Store(hasA, h.name, Store(Select(hasA, h.name), full, TrueT)))
	setGhostT(c, "kvVal", Store(valA, h.name, Store(Select(valA, h.name), full, val)))
}

func kvDelete(c *LibCtx, h kvHandle, key *Term) {
	full := strCatS(h.prefix, key)
	hasA := ghostT(c.st, "kvHas")
	setGhostT(c, "kvHas", Store(hasA, h.name, Store(Select(hasA, h.name), full, FalseT)))
}

// reachableHeapKeys lists the heap arrays a value of type t can reach through references.
func reachableTypes(t types.Type, seen map[string]types.Type, elems map[string]types.Type) {
	t = types.Unalias(t)
	switch classify(t) {
	case VPtr:
		e := ptrElem(t)
		k := heapTypeKey(e)
		if _, ok := seen[k]; !ok {
			seen[k] = e
			reachableTypes(e, seen, elems)
		}
	case VSlice:
		e := sliceElem(t)
		k := heapTypeKey(e)
		if _, ok := elems[k]; !ok {
			elems[k] = e
			reachableTypes(e, seen, elems)
		}
	case VStruct:
		st := t.Underlying().(*types.Struct)
		for i := 0; i < st.NumFields(); i++ {
			reachableTypes(st.Field(i).Type(), seen, elems)
		}
	}
}

func hasRefLeaves(t types.Type) bool {
	for _, l := range flatten(t) {
		if l.Ref {
			return true
		}
	}
	// interfaces may box references
	for _, l := range flatten(t) {
		if strings.HasSuffix(l.Path, ".pl") {
			return true
		}
	}
	return false
}

// snapTerm: abstract deep value of v = uninterpreted function of v's own leaves and of the current
// versions of every heap array reachable from its type. Equal terms denote equal deep values; when any
// reachable array has changed in between, nothing is known (sound).
func (x *Exec) snapTerm(st *State, v *Val) *Term {
	var args []*Term
	var sorts []string
	for _, l := range v.leaves() {
		if l == nil {
			continue
		}
		args = append(args, l)
		sorts = append(sorts, l.Sort)
	}
	objs, elems := map[string]types.Type{}, map[string]types.Type{}
	reachableTypes(v.Typ, objs, elems)
	var keys []string
	for k := range objs {
		keys = append(keys, "o:"+k)
	}
	for k := range elems {
		keys = append(keys, "e:"+k)
	}
	sort.Strings(keys)
	for _, k := range keys {
		var t types.Type
		slice := k[0] == 'e'
		if slice {
			t = elems[k[2:]]
		} else {
			t = objs[k[2:]]
		}
		for _, l := range flatten(t) {
			_, arr := st.heapArr(t, l, slice)
			args = append(args, arr)
			sorts = append(sorts, arr.Sort)
		}
	}
	return UF("snap:"+heapTypeKey(v.Typ), sorts, SInt, args...)
}

func (x *Exec) encTerm(st *State, v *Val) *Term {
	if hasRefLeaves(v.Typ) {
		return UF("encsnap:"+heapTypeKey(v.Typ), []string{SInt}, SStr, x.snapTerm(st, v))
	}
	var args []*Term
	var sorts []string
	for _, l := range v.leaves() {
		args = append(args, l)
		sorts = append(sorts, l.Sort)
	}
	return UF("enc:"+heapTypeKey(v.Typ), sorts, SStr, args...)
}

func init() {
	C := "(" + pSdk + "Context)."
	reg(C+"KVStore", func(c *LibCtx, a []*Val) *Val {
		key := a[1]
		name := UF("storeName", []string{SInt, SInt}, SStr, key.Tag, key.T)
		return c.x.newHandle(c, name, emptyStr, c.resType(0))
	})
	reg("github.com/cosmos/cosmos-sdk/store/prefix.NewStore", func(c *LibCtx, a []*Val) *Val {
		r := zeroVal(c.resType(0))
		if r.K == VStruct && len(r.Fields) == 2 {
			p := *a[0]
			r.Fields[0] = &p
			r.Fields[1] = strVal(Ite(Eq(a[1].T, bytesNil), emptyStr, a[1].T), r.Fields[1].Typ)
			if a[1].T.K == TConst || a[1].T.K == TApp && a[1].T.UFun {
				r.Fields[1] = strVal(a[1].T, r.Fields[1].Typ)
			}
		}
		return r
	})
	get := func(c *LibCtx, a []*Val) *Val {
		h, ok := c.x.handleOf(a[0])
		if !ok {
			c.x.note("KV Get on an untracked store handle")
			return strVal(Const(freshName("kvget"), SStr), c.resType(0))
		}
		if a[0].K == VStruct { // prefix.Store.key panics on a nil key
			c.panicIf(Eq(a[1].T, bytesNil), "nil-key-on-prefix-store")
		}
		return strVal(c.x.defineAlways(c.st, kvGet(c, h, a[1].T), "kvget"), c.resType(0))
	}
	has := func(c *LibCtx, a []*Val) *Val {
		h, ok := c.x.handleOf(a[0])
		if !ok {
			c.x.note("KV Has on an untracked store handle")
			return boolVal(Const(freshName("kvhas"), SBool))
		}
		if a[0].K == VStruct {
			c.panicIf(Eq(a[1].T, bytesNil), "nil-key-on-prefix-store")
		}
		return boolVal(Select(Select(ghostT(c.st, "kvHas"), h.name), strCatS(h.prefix, a[1].T)))
	}
	set := func(c *LibCtx, a []*Val) *Val {
		h, ok := c.x.handleOf(a[0])
		c.panicIf(Eq(StrLen(a[1].T), Num(0)), "KV-Set-empty-key")
		c.panicIf(Eq(a[2].T, bytesNil), "KV-Set-nil-value")
		if !ok {
			c.x.note("KV Set on an untracked store handle")
			return nil
		}
		kvSet(c, h, a[1].T, a[2].T)
		return nil
	}
	del := func(c *LibCtx, a []*Val) *Val {
		h, ok := c.x.handleOf(a[0])
		if !ok {
			c.x.note("KV Delete on an untracked store handle")
			return nil
		}
		if a[0].K == VStruct {
			c.panicIf(Eq(a[1].T, bytesNil), "nil-key-on-prefix-store")
		}
		kvDelete(c, h, a[1].T)
		return nil
	}
	for _, recv := range []string{"(github.com/cosmos/cosmos-sdk/store/prefix.Store).", "(github.com/cosmos/cosmos-sdk/store/types.BasicKVStore).", "(github.com/cosmos/cosmos-sdk/store/types.KVStore)."} {
		reg(recv+"Get", get)
		reg(recv+"Has", has)
		reg(recv+"Set", set)
		reg(recv+"Delete", del)
		libGhostWrites[recv+"Set"] = []string{"kvHas", "kvVal"}
		libGhostWrites[recv+"Delete"] = []string{"kvHas"}
	}

	// ---------------- codec ----------------
	cd := "(github.com/cosmos/cosmos-sdk/codec.BinaryCodec)."
	marshal := func(c *LibCtx, a []*Val) *Term {
		o := a[1] // ProtoMarshaler interface holding a pointer to the message
		if o.K != VIface || o.Tag.K != TNum {
			c.x.note("Marshal of a value of unknown dynamic type")
			return Const(freshName("bz"), SStr)
		}
		T := typeIDTypes[int(o.Tag.Num.Int64())]
		if T == nil || classify(T) != VPtr {
			c.x.note("Marshal of a non-pointer message")
			return Const(freshName("bz"), SStr)
		}
		p := c.x.unbox(c.st, o, T)
		c.x.nilCheck(c.fr, c.st, c.in, p)
		v := c.x.loadNoCheck(c.st, p)
		bz := c.x.defineAlways(c.st, c.x.encTerm(c.st, v), "bz")
		// encodings are never the nil slice
		c.st.Assume(Neq(bz, bytesNil))
		return bz
	}
	reg(cd+"MustMarshal", func(c *LibCtx, a []*Val) *Val { return strVal(marshal(c, a), c.resType(0)) })
	reg(cd+"Marshal", func(c *LibCtx, a []*Val) *Val {
		return &Val{K: VTuple, Typ: c.sig.Results(), Fields: []*Val{strVal(marshal(c, a), c.resType(0)), nilErr()}}
	})
	unmarshal := func(c *LibCtx, a []*Val, must bool) *Val {
		bz, o := a[1], a[2]
		var err *Val = nilErr()
		if !must {
			err = freshErr(c, "unmarshalErr")
		}
		if o.K != VIface || o.Tag.K != TNum {
			c.x.note("Unmarshal into a value of unknown dynamic type")
			return err
		}
		T := typeIDTypes[int(o.Tag.Num.Int64())]
		if T == nil || classify(T) != VPtr {
			c.x.note("Unmarshal into a non-pointer")
			return err
		}
		p := c.x.unbox(c.st, o, T)
		et := ptrElem(T)
		nv := c.x.freshLike(c.st, &Val{Typ: et}, "decoded")
		// everything Unmarshal returns is freshly allocated
		nr := Const(freshName("ref:next"), SInt)
		c.st.Assume(Ge(nr, c.st.NextRef))
		for i, l := range flatten(et) {
			if l.Ref {
				lt := nv.leaves()[i]
				c.st.Assume(Or(Eq(lt, Num(0)), And(Ge(lt, c.st.NextRef), Lt(lt, nr))))
			}
		}
		c.st.NextRef = nr
		ok := Eq(err.Tag, Num(0))
		// the decoded value encodes to the given bytes (decode is the inverse of encode)
		c.st.Assume(Implies(ok, Eq(c.x.encTerm(c.st, nv), bz.T)))
		if hasRefLeaves(et) {
			c.x.note("codec round trip of " + typeString(et) + " is abstract (deep value), fields are not reconstructed")
		}
		old := c.x.loadNoCheck(c.st, p)
		c.x.store(c.fr, c.st, c.in, p, iteVal(ok, nv, old))
		return err
	}
	reg(cd+"MustUnmarshal", func(c *LibCtx, a []*Val) *Val { unmarshal(c, a, true); return nil })
	reg(cd+"Unmarshal", func(c *LibCtx, a []*Val) *Val { return unmarshal(c, a, false) })
	libWritesPtrArgs[cd+"MustUnmarshal"] = true
	libWritesPtrArgs[cd+"Unmarshal"] = true
}
