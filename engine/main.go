package main

import (
	"sort"
	"flag"
	"fmt"
	"os"
	"runtime"
	"strings"
	"time"
)

func main() {
	defer cleanupScratch()
	if len(os.Args) < 2 {
		fmt.Println("usage: gocv func <key>... | check <id> [--tier quick|thorough] | lemma <name>...")
		os.Exit(2)
	}
	switch os.Args[1] {
	case "func", "lemma":
		fs := flag.NewFlagSet("func", flag.ExitOnError)
		timeout := fs.Int("t", 10, "solver timeout (s)")
		verbose := fs.Bool("v", false, "print hypotheses of failed obligations")
		dump := fs.String("dump", "", "directory to dump SMT of non-discharged obligations")
		dumpAll := fs.Bool("dumpall", false, "dump every obligation")
		panicMode := fs.Bool("panic", false, "no-panic mode (as in the C10/C20 checks)")
		fs.Parse(os.Args[2:])
		t0 := time.Now()
		p, err := LoadProgram(repoDir())
		if err != nil {
			fmt.Println("load error:", err)
			os.Exit(2)
		}
		fmt.Printf("loaded in %.1fs\n", time.Since(t0).Seconds())
		rc := 0
		for _, key := range fs.Args() {
			var rep *FuncReport
			if os.Args[1] == "lemma" {
				lm := p.Specs.Lemmas[key]
				if lm == nil {
					fmt.Println("no lemma", key)
					rc = 2
					continue
				}
				rep = VerifyLemma(p, lm)
			} else {
				fc := findContract(p, key)
				if fc == nil {
					fmt.Println("no contract matching", key)
					rc = 2
					continue
				}
				rep = VerifyFunc(p, fc, VerifyOpts{PanicMode: *panicMode, PanicProps: []string{"C10", "C20"}})
			}
			DischargeAll(rep.Obligations, *timeout, false, runtime.NumCPU())
			if *dumpAll && *dump != "" {
				os.MkdirAll(*dump, 0o755)
				for i, o := range rep.Obligations {
					os.WriteFile(fmt.Sprintf("%s/%d-%s.smt2", *dump, i, sanitize(o.Name)), []byte(o.SMT(false, true)), 0o644)
				}
			}
			if !printReport(rep, *verbose, *dump) {
				rc = 1
			}
		}
		cleanupScratch()
		os.Exit(rc)
	case "replayable":
		p, err := LoadProgram(repoDir())
		if err != nil {
			fmt.Println("load error:", err)
			os.Exit(2)
		}
		for _, k := range sortedContractKeys(p.Specs.Contracts) {
			if fc := p.Specs.Contracts[k]; !fc.Trusted && !fc.Inline && autoReplayable(p.Funcs[k]) {
				fmt.Println(k, fc.Props)
			} else if fn := p.Funcs[k]; fn != nil && os.Getenv("GOCV_WHY") != "" {
				var bad []string
				for _, prm := range fn.Params {
					if !rpSupported(prm.Type(), fn.Pkg.Pkg, 0, false) {
						bad = append(bad, prm.Name()+" "+typeString(prm.Type()))
					}
				}
				for i := 0; i < fn.Signature.Results().Len(); i++ {
					if !rpSupported(fn.Signature.Results().At(i).Type(), fn.Pkg.Pkg, 0, true) {
						bad = append(bad, "result "+typeString(fn.Signature.Results().At(i).Type()))
					}
				}
				fmt.Println("  --", k, bad)
			}
		}
	case "entrypoints":
		p, err := LoadProgram(repoDir())
		if err != nil {
			fmt.Println("load error:", err)
			os.Exit(2)
		}
		cmdEntryPoints(p)
	case "effects-infer":
		p, err := LoadProgram(repoDir())
		if err != nil {
			fmt.Println("load error:", err)
			os.Exit(2)
		}
		cmdEffectsInfer(p)
	case "surface":
		p, err := LoadProgram(repoDir())
		if err != nil {
			fmt.Println("load error:", err)
			os.Exit(2)
		}
		f := ""
		if len(os.Args) > 2 {
			f = os.Args[2]
		}
		cmdSurface(p, f)
	case "check":
		os.Exit(cmdCheck(os.Args[2:]))
	default:
		fmt.Println("unknown command", os.Args[1])
		os.Exit(2)
	}
}

func findContract(p *Program, key string) *FuncContract {
	if fc, ok := p.Specs.Contracts[key]; ok {
		return fc
	}
	var found *FuncContract
	for k, fc := range p.Specs.Contracts {
		if strings.HasSuffix(k, key) {
			if found != nil {
				fmt.Println("ambiguous contract key", key)
				return nil
			}
			found = fc
		}
	}
	return found
}

func printReport(rep *FuncReport, verbose bool, dump string) bool {
	ok := true
	fmt.Printf("== %s: %d obligations, %d paths\n", rep.Key, len(rep.Obligations), rep.Paths)
	if rep.Error != "" {
		fmt.Println("   ERROR:", rep.Error)
		ok = false
	}
	sortObligations(rep.Obligations)
	if os.Getenv("GOCV_SLOW") != "" {
		// developer aid: the slowest obligations of the unit
		obs := append([]*Obligation(nil), rep.Obligations...)
		sort.SliceStable(obs, func(i, j int) bool { return obs[i].TimeS > obs[j].TimeS })
		for i, o := range obs {
			if i >= 12 || o.TimeS < 0.5 {
				break
			}
			fmt.Printf("   slow %.1fs %s [%s] %d bytes\n", o.TimeS, strings.TrimPrefix(o.Name, rep.Key), o.Solver, o.SMTSize)
		}
	}
	for _, o := range rep.Obligations {
		if o.Status != "discharged" {
			ok = false
			fmt.Printf("   %-10s %s  [%s] %s\n", o.Status, strings.TrimPrefix(o.Name, rep.Key), o.Output, clip(o.Note, 160))
			if verbose {
				fmt.Printf("      %s\n", clip(o.Goal.String(), 2000))
				if o.Model != nil {
					fmt.Printf("      model: %v\n", o.Model)
				}
			}
			if verbose {
				for _, h := range o.Hyps {
					fmt.Println("        hyp:", h)
				}
			}
			if dump != "" {
				os.MkdirAll(dump, 0o755)
				os.WriteFile(dump+"/"+sanitize(o.Name)+".smt2", []byte(o.SMT(true, false)), 0o644)
			}
		}
	}
	n := 0
	var tt float64
	for _, o := range rep.Obligations {
		if o.Status == "discharged" {
			n++
		}
		tt += o.TimeS
	}
	fmt.Printf("   discharged %d/%d, solver time %.1fs\n", n, len(rep.Obligations), tt)
	for _, a := range rep.Abstractions {
		fmt.Println("   abstraction:", a)
	}
	if len(rep.Inlined) > 0 {
		fmt.Println("   inlined:", strings.Join(rep.Inlined, ", "))
	}
	return ok
}



func clip(s string, n int) string {
	if len(s) > n {
		return s[:n] + "..."
	}
	return s
}
